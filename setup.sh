#!/bin/sh
# Offline setup: everything is pure Python run by /venv/bin/python. The only third-party
# dependency is numpy (one stratum of C19), installed from the offline wheelhouse into the
# git-ignored .deps directory. Failure to install is tolerated here: C19 then reports the numpy
# stratum as unavailable in its evidence and decides on the remaining strata.
HERE="$(cd "$(dirname "$0")" && pwd)"
cd "$HERE" || exit 1
mkdir -p evidence replays
if [ ! -d .deps/numpy ]; then
  PIP_NO_INDEX=1 /venv/bin/pip install --quiet --no-index --find-links /opt/veriftools/wheels \
      --target "$HERE/.deps" numpy >/dev/null 2>&1 || echo "setup: numpy not installed (C19 numpy stratum unavailable)"
fi
/venv/bin/python -c "import sys; sys.path.insert(0, '$HERE'); from vf import boot; boot.boot(); print('setup ok: library at', boot.LIB_DIR)"
