"""Parallel case runner, verdicts, evidence writer.

A check module (checks/cNN.py) provides::

    PROPERTY = "C01"; LEVEL = "exploration"; RULE = "..." ; ASSUMPTIONS = [...]
    plan(tier, seed) -> list of shard specs (JSON-able dicts)
    run_shard(spec) -> {"evaluations": int, "keys": [int], "violations": [..],
                        "samples": [..], "counters": {..}, "strata": {..}}
    floors(tier, merged) -> list of (name, value, minimum)          (optional)
    extra_coverage(tier, merged) -> dict                              (optional)
    replay(case) -> list of violations                                (optional)

Shards run in separate interpreter processes (``python -m vf.worker``), at most
VERIF_JOBS (default: all cores) at a time, each under a wall-clock watchdog whose firing
is *inconclusive*, never a violation.

Exit codes: 0 held on everything explored; 1 unlisted violation (prints
``VIOLATION property=<id> replay=<path>``); 2 inconclusive (prints ``INCONCLUSIVE ...``).
"""
import hashlib
import importlib
import json
import os
import subprocess
import sys
import tempfile
import time
from concurrent.futures import ThreadPoolExecutor

from . import findings
from .boot import REPO, VERIF_ROOT

PY = sys.executable


def _safe(text):
    """Printable form: details may quote data with unpaired surrogates."""
    return str(text).encode("utf-8", "backslashreplace").decode("utf-8")


def load_check(cid):
    return importlib.import_module(f"checks.{cid.lower()}")


def _run_worker(cid, tier, seed, idx, spec, timeout):
    fd, out = tempfile.mkstemp(prefix=f"vf_{cid}_{idx}_", suffix=".json")
    os.close(fd)
    fd, specf = tempfile.mkstemp(prefix=f"vf_{cid}_{idx}_spec_", suffix=".json")
    with os.fdopen(fd, "w") as f:
        json.dump(spec, f)
    env = dict(os.environ)
    env["PYTHONPATH"] = VERIF_ROOT
    env["PYTHONDONTWRITEBYTECODE"] = "1"
    env["PYTHONHASHSEED"] = "0"
    env["VERIF_REPO"] = REPO
    t0 = time.time()
    try:
        p = subprocess.run([PY, "-m", "vf.worker", cid, specf, out], env=env, cwd=VERIF_ROOT,
                           capture_output=True, text=True, timeout=timeout)
        status = p.returncode
        err = p.stderr[-4000:]
    except subprocess.TimeoutExpired as e:
        status, err = "timeout", (e.stderr or b"")[-2000:] if isinstance(e.stderr, bytes) else str(e.stderr)[-2000:]
    res = None
    try:
        with open(out) as f:
            txt = f.read()
        if txt.strip():
            res = json.loads(txt)
    except Exception as e:  # noqa: BLE001
        err = (err or "") + f"\n[result unreadable: {e}]"
    for pth in (out, specf):
        try:
            os.remove(pth)
        except OSError:
            pass
    return {"idx": idx, "status": status, "stderr": err, "result": res, "wall": time.time() - t0}


def merge(results):
    m = {"evaluations": 0, "keys": set(), "violations": [], "samples": [], "counters": {},
         "strata": {}, "extra": []}
    for r in results:
        if r is None:
            continue
        m["evaluations"] += r.get("evaluations", 0)
        m["keys"].update(r.get("keys", []))
        m["violations"].extend(r.get("violations", []))
        for s in r.get("samples", []):
            if len(m["samples"]) < 6:
                m["samples"].append(s)
        _addc(m["counters"], r.get("counters", {}))
        _addc(m["strata"], r.get("strata", {}))
        if r.get("extra") is not None:
            m["extra"].append(r["extra"])
    return m


def _addc(dst, src):
    for k, v in src.items():
        if isinstance(v, dict):
            _addc(dst.setdefault(k, {}), v)
        elif isinstance(v, (int, float)):
            dst[k] = dst.get(k, 0) + v
        elif isinstance(v, list):
            cur = dst.setdefault(k, [])
            for x in v:
                if x not in cur and len(cur) < 400:
                    cur.append(x)
        else:
            dst[k] = v


def write_replay(cid, v):
    d = os.environ.get("VERIF_REPLAY_DIR") or os.path.join(VERIF_ROOT, "replays")
    os.makedirs(d, exist_ok=True)
    blob = json.dumps({"property": cid, "violation": v}, indent=1, sort_keys=True, default=repr)
    name = f"{cid}_{hashlib.sha256(blob.encode()).hexdigest()[:12]}.json"
    path = os.path.join(d, name)
    with open(path, "w") as f:
        f.write(blob)
    return path


def main(cid, tier, seed, replay=None):
    t0 = time.time()
    os.chdir(VERIF_ROOT)
    if VERIF_ROOT not in sys.path:
        sys.path.insert(0, VERIF_ROOT)
    chk = load_check(cid)
    if replay:
        return _replay(chk, cid, replay)
    specs = chk.plan(tier, seed)
    jobs = int(os.environ.get("VERIF_JOBS", os.cpu_count() or 4))
    timeout = getattr(chk, "SHARD_TIMEOUT", {}).get(tier, 600 if tier == "quick" else 3600)
    with ThreadPoolExecutor(max_workers=jobs) as ex:
        futs = [ex.submit(_run_worker, cid, tier, seed, i, s, timeout) for i, s in enumerate(specs)]
        outs = [f.result() for f in futs]
    inconclusive = []
    for o in outs:
        if o["status"] == "timeout":
            inconclusive.append(f"shard {o['idx']} watchdog fired after {o['wall']:.0f}s")
        elif o["status"] != 0 or o["result"] is None:
            inconclusive.append(f"shard {o['idx']} worker failed (status {o['status']}): "
                                f"{(o['stderr'] or '').strip().splitlines()[-1:]}")
    merged = merge([o["result"] for o in outs])
    # ---- classify violations
    entries = findings.load()
    known_hit = {}
    unlisted = []
    for v in merged["violations"]:
        e = findings.classify(cid, v.get("sig", {}), entries)
        if e is not None:
            known_hit.setdefault(e["id"], {"entry": e, "count": 0, "example": v})
            known_hit[e["id"]]["count"] += 1
        else:
            unlisted.append(v)
    for kid, k in sorted(known_hit.items()):
        print(f"KNOWN-FINDING: property={cid} {k['entry']['what_fails']} [{kid}; seen {k['count']}x this run]")
    # ---- floors
    floor_list = chk.floors(tier, merged) if hasattr(chk, "floors") else []
    floor_list = list(floor_list) + [("evaluations", merged["evaluations"], 1),
                                     ("distinct_nontrivial", len(merged["keys"]), 2)]
    for name, val, minimum in floor_list:
        if val < minimum:
            inconclusive.append(f"floor {name}: observed {val} < required {minimum}")
    # ---- evidence
    cov = {
        "evaluations": merged["evaluations"],
        "distinct_nontrivial": len(merged["keys"]),
        "rule": chk.RULE,
        "samples": merged["samples"][:6] or ["<none>"],
        "strata": merged["strata"],
        "monitor_counters": merged["counters"],
        "floors": [{"name": n, "observed": v, "required": m} for n, v, m in floor_list],
        "known_findings_seen": {k: v["count"] for k, v in known_hit.items()},
        "shards": len(specs),
        "verdict": "violated" if unlisted else ("inconclusive" if inconclusive else "held_on_observed"),
    }
    if inconclusive:
        cov["inconclusive_reasons"] = inconclusive[:20]
    if hasattr(chk, "extra_coverage"):
        cov.update(chk.extra_coverage(tier, merged))
    ev = {
        "property_id": cid,
        "tier": tier,
        "seed": seed,
        "level": chk.LEVEL,
        "coverage": cov,
        "assumptions": list(getattr(chk, "ASSUMPTIONS", [])) + [
            f"library imported from {REPO} (asserted in every worker)",
            "verdict covers only the executions produced by this run (counts above)",
        ],
        "wall_s": round(time.time() - t0, 2),
        "violations": len(unlisted),
    }
    evdir = os.environ.get("VERIF_EVIDENCE_DIR") or os.path.join(VERIF_ROOT, "evidence")
    os.makedirs(evdir, exist_ok=True)
    with open(os.path.join(evdir, f"{cid}.json"), "w") as f:
        json.dump(ev, f, indent=1, sort_keys=True, default=repr)
    print(f"{cid} tier={tier} seed={seed}: evaluations={merged['evaluations']} "
          f"distinct={len(merged['keys'])} violations={len(unlisted)} known={sum(v['count'] for v in known_hit.values())} "
          f"wall={ev['wall_s']}s")
    if unlisted:
        hist = {}
        for v in unlisted:
            sg = v.get("sig", {})
            k = (sg.get("kind"), sg.get("sub"), sg.get("op"), sg.get("stratum"), sg.get("strategy"))
            hist[k] = hist.get(k, 0) + 1
        for k, n in sorted(hist.items(), key=lambda kv: -kv[1])[:25]:
            print(f"  unlisted x{n}: kind={k[0]} sub={k[1]} op={k[2]} stratum={k[3]} strategy={k[4]}")
        seen = set()
        for v in unlisted:
            key = json.dumps(v.get("sig", {}), sort_keys=True)
            if key in seen:
                continue
            seen.add(key)
            path = write_replay(cid, v)
            print(f"VIOLATION property={cid} replay={path}")
            print(_safe(f"  {v.get('detail', '')[:500]}"))
            if len(seen) >= 8:
                break
        return 1
    if inconclusive:
        for r in inconclusive[:10]:
            print(f"INCONCLUSIVE property={cid} reason={r}")
        return 2
    return 0


def _replay(chk, cid, path):
    with open(path) as f:
        doc = json.load(f)
    v = doc["violation"]
    if not hasattr(chk, "replay"):
        print("this check has no replay entry point")
        return 2
    env = dict(os.environ, PYTHONPATH=VERIF_ROOT, PYTHONHASHSEED="0", VERIF_REPO=REPO,
               PYTHONDONTWRITEBYTECODE="1")
    p = subprocess.run([PY, "-m", "vf.worker", cid, "--replay", path], env=env, cwd=VERIF_ROOT)
    return p.returncode
