"""E4 harness: run small multi-threaded programs under the deterministic scheduler, record
client-boundary histories, and check them against the plain model (linearizability).

Program format (JSON)::

    {"cls": "JSONDict", "init": <content>|"<MISSING>",
     "roots": [[hid, 0], ...],                      # objects on the one resource, or
     "files": n  (C13: roots then carry the resource index)
     "pre": [ {"retain": id, "h":.., "path": [...]}, {"op":...}, ... ],   # main thread, before
     "threads": [[step, ...], ...],                 # op steps as in vf.session
     "buffered": null | {"cap": n|null}}            # run the threads inside buffer_backend(cap)
"""
import copy
import itertools
import shutil
import threading

from . import catalog, model, sched
from .catalog import MISSING
from .session import ModelState, make_scratch


def clock():
    """Budget clock of the E4 checks: CPU seconds of this shard process (all threads). Budgets only bound how
    much is explored, never a verdict; counting CPU time instead of wall-clock time keeps the explored set
    (nearly) the same on a loaded machine - the run just takes longer. A separate, generous wall-clock
    watchdog (SHARD_TIMEOUT) turns a hung shard into an inconclusive run."""
    import time

    return time.process_time()


class ProgramRunner:
    def __init__(self, prog, watch_fs=False):
        self.prog = prog
        self.watch_fs = watch_fs  # attribute write-class file-system events to the client call that made them
        self.info = catalog.info(prog["cls"])
        self.cls = self.info.cls()
        self.scratch = make_scratch()
        self.nres = prog.get("files", 1)
        self.inits = prog["init"] if isinstance(prog.get("init"), list) and prog.get("files") else [prog["init"]]
        self.resources = [catalog.Resource(self.info, self.scratch, f"r{i}") for i in range(self.nres)]
        for i, r in enumerate(self.resources):
            r.path = r.path.replace(".json", f"_{id(self) % 100000}.json")

    def close(self):
        shutil.rmtree(self.scratch, ignore_errors=True)

    # ---------------------------------------------------------------------------------
    def _setup(self):
        catalog.reset_class_state(self.cls)
        sched.reset_all_locks()
        for r, init in zip(self.resources, self.inits):
            if init == MISSING:
                r.remove()
            else:
                r.outside_write(copy.deepcopy(init), bump=False)
        self.objs = {}
        if self.prog.get("ctor_mt_off") or any("new" in st for t in self.prog["threads"] for st in t):
            # objects constructed inside the threads: the file's lock must not be registered yet (isolation between
            # the runs of one program; the registry itself is the library's and is only emptied of this entry)
            for r in self.resources:
                getattr(self.cls, "_locks", {}).pop(getattr(r, "path", None), None)
        mt_off = bool(self.prog.get("ctor_mt_off"))
        fam = [c for c in self.info.family_classes()] if mt_off else []
        if mt_off:
            # the objects are created (and the main-thread preparation runs) while multithreading support is
            # switched off - a single-threaded set-up phase - and the support is switched on before the threads start
            for c in fam:
                c.disable_multithreading()
        for hid, res in self.prog["roots"]:
            self.objs[hid] = self.resources[res].new_handle()
        for st in self.prog.get("pre", []):
            if "retain" in st:
                node = self.objs[st["h"]]
                for k in st.get("path", []):
                    node = node[k]
                self.objs[st["retain"]] = node
            elif "op" in st:
                node = self.objs[st["h"]]
                for k in st.get("path", []):
                    node = node[k]
                model.run_sut(node, st["op"], [model.decode(a, self_obj=node) for a in st.get("args", [])])
        if mt_off:
            for c in fam:
                c.enable_multithreading()

    def run(self, policy, watchdog_s=30.0, record_sites=False):
        """One controlled execution. Returns (sched_result, history, final_probe, extra)."""
        self._setup()
        clock = itertools.count()
        hist = []
        objs = self.objs
        opstart = self.opstart = {}
        newspan = self.newspan = {}  # thread -> (points before, points after) its constructor step
        lazy_first = bool(self.prog.get("ctor_mt_off"))
        current = {}  # thread ident -> (thread index, op index) of the client call in progress

        def body(ti, steps):
            def run():
                for si, st in enumerate(steps):
                    if "new" in st:
                        # the thread constructs its own object on the resource (not a collection operation)
                        n0 = sched.SCHED.nsteps[ti] if ti < len(sched.SCHED.nsteps) else 0
                        objs[st["new"]] = self.resources[st["res"]].new_handle()
                        newspan[ti] = (n0, sched.SCHED.nsteps[ti] if ti < len(sched.SCHED.nsteps) else n0)
                        continue
                    if "drop" in st:
                        # the thread releases its object (and lets the collector run) before it ends
                        import gc

                        objs.pop(st["drop"], None)
                        gc.collect()
                        continue
                    hist.append(("call", next(clock), ti, si))
                    if lazy_first and ti not in newspan:
                        # objects were constructed with multithreading support off: whatever the library sets up
                        # lazily happens at the start of a thread's first operation - treated like a constructor
                        # span by the "ctor" schedule family
                        n0 = sched.SCHED.nsteps[ti] if ti < len(sched.SCHED.nsteps) else 0
                        newspan[ti] = (n0, n0 + 60)
                    current[threading.get_ident()] = (ti, si)
                    opstart[(ti, si)] = sched.SCHED.nsteps[ti] if ti < len(sched.SCHED.nsteps) else 0
                    try:
                        node = objs[st["h"]]
                        for k in st.get("path", []):
                            node = node[k]
                        args = [model.decode(a, self_obj=node) for a in st.get("args", [])]
                        out = model.run_sut(node, st["op"], args)
                        if out.kind == "ret":
                            # snapshot now: returned nodes are live and are updated in place
                            # by later reloads
                            out.value = model.to_plain(out.value)
                    except sched.SchedAbort:
                        raise
                    except Exception as e:  # noqa: BLE001 - navigation failure
                        out = model.Outcome("exc", exc=e)
                    if out.kind == "exc" and isinstance(out.exc, sched.SchedAbort):
                        raise out.exc
                    current.pop(threading.get_ident(), None)
                    hist.append(("ret", next(clock), ti, si, out))
            return run

        buffered = self.prog.get("buffered")
        cm = None
        extra = {}
        if buffered is not None:
            cap = buffered.get("cap")
            cm = self.cls.buffer_backend(cap) if cap is not None else self.cls.buffer_backend()
            cm.__enter__()
        if self.watch_fs:
            from . import fsmon

            fsmon.arm(self.scratch, tag_fn=lambda: current.get(threading.get_ident()))
        try:
            res = sched.SCHED.run([body(i, t) for i, t in enumerate(self.prog["threads"])], policy,
                                  watchdog_s=watchdog_s, record_sites=record_sites)
        finally:
            if self.watch_fs:
                extra["fs_by_op"] = fsmon.tagged()
                fsmon.disarm()
            if cm is not None:
                try:
                    cm.__exit__(None, None, None)
                    extra["exit_exc"] = None
                except Exception as e:  # noqa: BLE001
                    extra["exit_exc"] = e
                try:
                    extra["buffer_size_after"] = self.cls.get_current_buffer_size()
                except Exception as e:  # noqa: BLE001
                    extra["buffer_size_after"] = repr(e)
        final = [r.probe() for r in self.resources]
        return res, hist, final, extra


# --------------------------------------------------------------------------- checker
def build_ops(prog, hist):
    """[(thread, index, call_t, ret_t|None, step, outcome|None)]"""
    calls, rets = {}, {}
    for ev in hist:
        if ev[0] == "call":
            calls[(ev[2], ev[3])] = ev[1]
        else:
            rets[(ev[2], ev[3])] = (ev[1], ev[4])
    ops = []
    for (ti, si), ct in sorted(calls.items()):
        rt, out = rets.get((ti, si), (None, None))
        ops.append({"t": ti, "i": si, "call": ct, "ret": rt, "step": prog["threads"][ti][si], "out": out})
    return ops


def _model_for(prog, info, inits):
    ms = ModelState(info.kind, inits)
    for hid, res in prog["roots"]:
        ms.add_root(hid, res)
    for st in prog.get("pre", []):
        if "retain" in st:
            ms.retain(st["retain"], st["h"], st.get("path", []))
        elif "op" in st:
            ms.apply_op(st)
    for t in prog["threads"]:
        for st in t:
            if "new" in st:
                ms.add_root(st["new"], st["res"])
    if prog.get("buffered") is not None:
        ms.enter({"enter": "backend", "cap": prog["buffered"].get("cap")})
    return ms


def linearizable(prog, ops, finals, per_file=False, max_orders=5000):
    """Search a total order of completed ops, respecting program order and real-time
    precedence, that reproduces every outcome and the final resource contents.

    Returns (ok, detail, n_orders_tried). All ops must be complete.
    """
    info = catalog.info(prog["cls"])
    inits = prog["init"] if isinstance(prog.get("init"), list) and prog.get("files") else [prog["init"]]
    n = len(ops)
    idx = list(range(n))
    # precedence: same thread order, or a returned before b was called
    before = [[False] * n for _ in range(n)]
    for a in idx:
        for b in idx:
            if a == b:
                continue
            A, B = ops[a], ops[b]
            if A["t"] == B["t"] and A["i"] < B["i"]:
                before[a][b] = True
            elif A["ret"] is not None and A["ret"] < B["call"]:
                before[a][b] = True
    tried = 0
    best = None

    def rec(order, used, ms):
        nonlocal tried, best
        if len(order) == n:
            tried += 1
            msf = ms
            if prog.get("buffered") is not None:
                msf = copy.deepcopy(ms)
                msf.exit()
            for r, fin in enumerate(finals):
                if prog.get("buffered") is not None:
                    acc = msf.note_flushed(r) or []
                else:
                    acc = [msf.truth[r]]
                    if msf.truth[r] == MISSING and msf.may_create[r]:
                        acc.append(msf.logical[r])
                good = any((fin == MISSING and a == MISSING) or
                           (fin != MISSING and a != MISSING and model.compare(fin, a) == "ok") for a in acc)
                if not good:
                    best = best or (f"order {[(ops[i]['t'], ops[i]['i']) for i in order]} reproduces all results "
                                    f"but final resource r{r} is {fin!r}, model allows {acc!r}")
                    return False
            return True
        if tried > max_orders:
            return False
        for c in idx:
            if c in used:
                continue
            if any(before[p][c] and p not in used for p in idx):
                continue
            ms2 = copy.deepcopy(ms)
            o = ops[c]
            mod, target = ms2.apply_op(o["step"], sut_outcome=o["out"])
            verdict, _ = model.judge(o["step"]["op"], o["out"], mod, iter_unordered=isinstance(target, dict))
            if o["step"]["op"] == "popitem" and mod.kind == "ret" and isinstance(mod.value, tuple) \
                    and mod.value and mod.value[0] in ("<not-present>", "<bad-popitem-result>"):
                verdict = "mismatch"
            if verdict != "ok":
                continue
            if rec(order + [c], used | {c}, ms2):
                return True
        return False

    ms0 = _model_for(prog, info, inits)
    ok = rec([], frozenset(), ms0)
    if ok:
        return True, "", tried
    return False, best or "no total order consistent with program order and real time reproduces the recorded results", tried


def describe_history(ops):
    out = []
    for o in sorted(ops, key=lambda x: x["call"]):
        st = o["step"]
        out.append(f"T{o['t']}.{o['i']} {st['op']}{st.get('args', [])} via h{st['h']}{st.get('path', [])} "
                   f"[{o['call']}..{o['ret']}] -> {o['out'].brief() if o['out'] is not None else 'OPEN'}")
    return out


# --------------------------------------------------------------------------- exploration
def explore(prog, runner, rng, tier, sig_base, check_extra=None, budget_runs=None,
            policies=("sweep",), per_file=False, deadline=None, verdict=None, victims=None):
    """Run ``prog`` under many schedules and check every execution.

    Returns dict(runs, schedules(set of hashes), violations[list], mid_op_switch_runs,
                 sites(set), statuses{...}).
    """
    import hashlib

    nthreads = len(prog["threads"])
    out = {"runs": 0, "schedules": set(), "violations": [], "sites": set(), "statuses": {},
           "orders_tried": 0, "interleaved_runs": 0, "inconclusive": []}

    import time as _time

    def late():
        if deadline is not None and clock() > deadline:
            out["cut_by_deadline"] = True
            return True
        return False

    def one(policy, record_sites=False):
        res, hist, final, extra = runner.run(policy, record_sites=record_sites)
        out["runs"] += 1
        key = hashlib.sha256(repr(res["trace"]).encode()).digest()[:8]
        out["schedules"].add(int.from_bytes(key, "big"))
        out["statuses"][res["status"]] = out["statuses"].get(res["status"], 0) + 1
        for t, site in res["switch_sites"]:
            out["sites"].add((site[0].rsplit("/", 1)[-1], site[1]))
        if any(a >= 0 and b > 0 for a, b, _ in res["trace"]):
            out["interleaved_runs"] += 1
        ops = build_ops(prog, hist)
        v = None
        if res["status"] == "watchdog" or res["status"] == "overrun":
            out["inconclusive"].append(f"run status {res['status']}")
            return res
        if res["excs"]:
            v = ("harness", f"thread body raised {res['excs']}")
        elif res["status"] == "deadlock":
            v = ("deadlock", f"deadlock: threads {res['unfinished']} blocked on {res['blocked']}")
        elif res["leaked"]:
            v = ("leaked_lock", f"lock(s) still held by finished threads: {res['leaked']}")
        elif verdict is not None:
            # the caller decides on its own observations (the linearizability search is not run)
            v = verdict(prog, res, ops, final, extra)
        else:
            ok, detail, tried = linearizable(prog, ops, final)
            out["orders_tried"] += tried
            if not ok:
                v = ("nonlinearizable", detail)
            elif check_extra is not None:
                v = check_extra(prog, res, ops, final, extra)
        if v is not None and len(out["violations"]) < 3:
            names = sorted({o["step"]["op"] for o in ops})
            out["violations"].append({
                "sig": {**sig_base, "kind": v[0], "ops": "+".join(names)},
                "detail": v[1] + "\n    " + "\n    ".join(describe_history(ops)),
                "case": {"prog": prog, "policy": policy.describe()},
            })
        return res

    def select_ks(seq):
        """Preemption indices for a victim whose solo path visits ``seq`` (list of sites).

        thorough: every k. quick: for every distinct site its first two and its last
        occurrence (loops in validators / merges revisit the same lines many times)."""
        n = len(seq)
        if tier != "quick":
            return list(range(1, n + 1))
        first, last, cnt = {}, {}, {}
        ks = set()
        for i, s_ in enumerate(seq, start=1):
            cnt[s_] = cnt.get(s_, 0) + 1
            if cnt[s_] <= 2:
                ks.add(i)
            last[s_] = i
        ks.update(last.values())
        return sorted(ks)

    if "sweep" in policies:
        for victim in (range(nthreads) if victims is None else victims):
            orders = [[victim] + [t for t in range(nthreads) if t != victim]]
            if nthreads == 3:
                orders.append([victim] + [t for t in reversed(range(nthreads)) if t != victim])
            for oi, order in enumerate(orders):
                # solo run of the victim (its change point is never reached): gives the site
                # sequence of its uninterrupted path = the range of the sweep
                res = one(sched.PriorityPolicy(order, [(victim, 10**9)]), record_sites=True)
                if res["status"] in ("watchdog", "overrun"):
                    continue
                seq = res["site_seq"][victim]
                ks = select_ks(seq)
                if oi > 0:
                    ks = ks[:: 2]
                out["sweep_points"] = out.get("sweep_points", 0) + len(ks)
                out["solo_path_points"] = out.get("solo_path_points", 0) + len(seq)
                for k in ks:
                    if late():
                        break
                    res = one(sched.PriorityPolicy(order, [(victim, k)]))
                    if res["status"] in ("watchdog", "overrun"):
                        break
                    if budget_runs and out["runs"] > budget_runs:
                        break
    if "boundary" in policies:
        # A second family of schedules: thread A runs up to the start of its i-th operation (i >= 1), thread B
        # then runs until its k-th point (k swept over B's path in that context), A completes, B completes:
        #     A: op0 | B: partial | A: op_i ... | B: rest
        # This reaches interleavings that need two preemptions, the first one at an operation boundary.
        for a in range(nthreads):
            nops = len(prog["threads"][a])
            for i in range(1, nops):
                for b in range(nthreads):
                    if b == a:
                        continue
                    order = [a, b] + [t for t in range(nthreads) if t not in (a, b)]
                    # recording run: learn A's point count at the start of op i and B's path afterwards
                    res = one(sched.PriorityPolicy(order, [(a, 10**9)]), record_sites=True)
                    if res["status"] != "ok":
                        continue
                    bnd = runner.opstart.get((a, i))
                    if bnd is None:
                        continue
                    res = one(sched.PriorityPolicy(order, [(a, bnd + 1), (b, 10**9)]), record_sites=True)
                    if res["status"] != "ok":
                        continue
                    ks = select_ks(res["site_seq"][b])
                    if tier == "quick":
                        ks = ks[:: 2]
                    out["boundary_points"] = out.get("boundary_points", 0) + len(ks)
                    for k in ks:
                        if late():
                            break
                        res = one(sched.PriorityPolicy(order, [(a, bnd + 1), (b, k)]))
                        if res["status"] in ("watchdog", "overrun"):
                            break
    if "ctor" in policies:
        # Threads that construct their own object ("new" step): thread A is delayed at every point k1 *inside its
        # constructor*, thread B then runs to its k-th point (k swept), A completes, B completes:
        #     A: half a constructor | B: constructor + partial op | A: rest | B: rest
        for a in range(nthreads):
            if not any("new" in st for st in prog["threads"][a]) and not prog.get("ctor_mt_off"):
                continue
            for b in range(nthreads):
                if b == a:
                    continue
                order = [a, b] + [t for t in range(nthreads) if t not in (a, b)]
                res = one(sched.PriorityPolicy(order, [(a, 10**9)]), record_sites=True)
                span = runner.newspan.get(a)
                if res["status"] != "ok" or not span:
                    continue
                # every point of the span (it is short), not only the site-selected ones
                k1s = [k for k in range(span[0] + 1, min(span[1], len(res["site_seq"][a])) + 1)]
                k1s.reverse()  # registrations and lazy set-up sit at the end of the span: explore from there
                if tier == "quick":
                    if (a, b) != (0, 1):
                        continue  # one ordered pair of threads at the quick tier
                for k1 in k1s:
                    res = one(sched.PriorityPolicy(order, [(a, k1), (b, 10**9)]), record_sites=True)
                    if res["status"] != "ok":
                        continue
                    ks = select_ks(res["site_seq"][b])
                    if tier == "quick":
                        ks = ks[:: 3]
                    out["ctor_points"] = out.get("ctor_points", 0) + len(ks)
                    for k in ks:
                        if late():
                            break
                        res = one(sched.PriorityPolicy(order, [(a, k1), (b, k)]))
                        if res["status"] in ("watchdog", "overrun"):
                            break
    if "two_delay" in policies:
        lens = [max(2, n) for n in (runner_last_nsteps(runner) or [200] * nthreads)]
        for _ in range(40 if tier == "quick" else 200):
            a, b = rng.sample(range(nthreads), 2) if nthreads > 1 else (0, 0)
            order = list(range(nthreads))
            rng.shuffle(order)
            one(sched.PriorityPolicy(order, [(a, rng.randrange(1, lens[a])), (b, rng.randrange(1, lens[b])),
                                             (a, rng.randrange(1, lens[a]))]))
    if "random" in policies:
        for p in (0.05, 0.2, 0.5):
            for _ in range(15 if tier == "quick" else 80):
                import random as _r

                one(sched.RandomWalkPolicy(_r.Random(rng.getrandbits(32)), p))
    return out


def runner_last_nsteps(runner):
    try:
        return list(sched.SCHED.nsteps)
    except Exception:  # noqa: BLE001
        return None


def replay_one(case, watch_fs=False, verdict=None):
    """Re-run one recorded (program, policy) pair; returns the violation list."""
    prog = case["prog"]
    pol = case["policy"]
    runner = ProgramRunner(prog, watch_fs=watch_fs)
    try:
        if pol["policy"] == "priority":
            policy = sched.PriorityPolicy(pol["order"], [tuple(c) for c in pol["change_points"]])
        else:
            return []
        # warm-up: point indices were recorded in a process that had run the program before (first executions
        # take extra lines - memoised type classification, lazily created locks)
        for _ in range(2):
            runner.run(sched.PriorityPolicy(pol["order"], [(pol["order"][0], 10**9)]))
        res, hist, final, extra = runner.run(policy)
        ops = build_ops(prog, hist)
        if res["status"] == "deadlock":
            return [{"detail": f"deadlock: {res['blocked']}"}]
        if res["status"] != "ok":
            return []
        if verdict is not None:
            v = verdict(prog, res, ops, final, extra)
            return [] if v is None else [{"detail": v[1] + "\n" + "\n".join(describe_history(ops))}]
        ok, detail, _ = linearizable(prog, ops, final)
        return [] if ok else [{"detail": detail + "\n" + "\n".join(describe_history(ops))}]
    finally:
        runner.close()
