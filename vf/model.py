"""Plain reference model (built-in dict / list), op vocabulary, comparisons.

The model is the executable specification used by the E1 monitor: every public operation
of the dict-like and list-like API has a twin applied to a built-in container, with the
documented deviations of property C03 encoded once (see ``MODEL_OPS``).
"""
import ast
import json
import operator
from collections.abc import Mapping

# --------------------------------------------------------------------------- arg encoding
# Cases are JSON documents; values that JSON cannot carry are tagged:
#   {"$tuple": [...]}  {"$bytes": [ints]}  {"$slice": [a,b,c]}  {"$gen": [...]}
#   {"$self": true}    {"$big": n}  (10**n)   {"$aux": value} (another synced object)
#   {"$node": path}   the nested container at that path of the same document (a synced node / a model copy)
#   {"$bad": kind}     an item the collection must reject (C11), see gen.BAD_KINDS
#   {"$kdict": [[key, value], ...]}  a dict whose keys need not be strings


class _Opaque:
    """An object of no JSON category."""

    def __repr__(self):
        return "<Opaque>"


class _BadKeyDictPlaceholder:
    pass


def make_bad(kind):
    if kind == "set":
        return {1, 2}
    if kind == "frozenset":
        return frozenset((1,))
    if kind == "object":
        return _Opaque()
    if kind == "complex":
        return 1 + 2j
    if kind == "function":
        return make_bad
    if kind == "type":
        return int
    if kind == "bytes_scalar":  # bytes are sequences -> allowed; not used as bad
        return b"x"
    if kind == "intkey":
        return {1: "v"}
    if kind == "nonekey":
        return {None: "v"}
    if kind == "tuplekey":
        return {(1, 2): "v"}
    if kind == "floatkey":
        return {1.5: "v"}
    if kind == "boolkey":
        return {True: "v"}
    if kind == "dotkey":
        return {"a.b": "v"}
    if kind == "dotkey_only":
        return {".": 1}
    if kind == "dotkey_end":
        return {"ab.": None}
    raise ValueError(kind)


def decode(x, self_obj=None, aux=None, node=None):
    """Turn a tagged JSON argument into the Python value handed to an operation."""
    if isinstance(x, list):
        return [decode(v, self_obj, aux, node) for v in x]
    if isinstance(x, dict):
        if len(x) == 1:
            (tag, v), = x.items()
            if tag == "$tuple":
                return tuple(decode(i, self_obj, aux, node) for i in v)
            if tag == "$bytes":
                return bytes(v)
            if tag == "$slice":
                return slice(*v)
            if tag == "$deque":
                import collections

                return collections.deque(decode(i, self_obj, aux, node) for i in v)
            if tag == "$range":
                return range(*v)
            if tag == "$gen":
                return (decode(i, self_obj, aux, node) for i in v)
            if tag == "$self":
                return self_obj
            if tag == "$big":
                return 10 ** v
            if tag == "$neg":
                return -decode(v, self_obj, aux, node)
            if tag == "$aux":
                return aux(v)
            if tag == "$node":
                # the container at absolute path v of the same document: on the library side the synced node
                # itself (the value handed to a mutator is an existing nested collection), on the model side a copy
                return node(v)
            if tag == "$bad":
                return make_bad(v)
            if tag == "$kdict":
                return {decode_key(k): decode(val, self_obj, aux, node) for k, val in v}
            if tag == "$float":
                return float(v)
        return {k: decode(v, self_obj, aux, node) for k, v in x.items()}
    return x


def decode_key(k):
    if isinstance(k, dict) and len(k) == 1:
        (tag, v), = k.items()
        if tag == "$tuple":
            return tuple(v)
        if tag == "$none":
            return None
        if tag == "$list":  # unhashable key
            return list(v)
        if tag == "$float":
            return float(v)
    return k


# --------------------------------------------------------------------------- plain views
_SC = []


def _sc_class():
    if not _SC:
        from synced_collections import SyncedCollection

        _SC.append(SyncedCollection)
    return _SC[0]


def to_plain(x):
    """Plain built-in view of anything an operation returns.

    Synced nodes are converted by walking ``_data`` directly (a hooked-state peek that
    never calls a loading API).
    """
    SC = _sc_class()
    if isinstance(x, SC):
        d = getattr(x, "_data", None)
        # _to_base() is documented not to load; only a fallback should _data be renamed
        x = d if d is not None else x._to_base()
    if isinstance(x, dict):
        return {k: to_plain(v) for k, v in x.items()}
    if isinstance(x, list):
        return [to_plain(v) for v in x]
    if isinstance(x, tuple):
        return tuple(to_plain(v) for v in x)
    if type(x).__name__ in ("dict_keys", "dict_values", "dict_items"):
        return [to_plain(v) for v in x]
    return x


def norm(v):
    """Deep copy into stored form: tuples/bytes -> lists, Mapping -> dict."""
    if isinstance(v, Mapping):
        return {k: norm(x) for k, x in v.items()}
    if isinstance(v, (list, tuple)):
        return [norm(x) for x in v]
    if isinstance(v, (bytes, bytearray)):
        return list(v)
    return v


def _leaf_strict_eq(a, b):
    if type(a) is not type(b):
        return False
    # same JSON type and equal: the sign of a float zero is not a type (0.0 == -0.0, both floats)
    return a == b


def strict_eq(a, b):
    """Same structure and the same JSON type at every leaf (True != 1 != 1.0)."""
    if isinstance(a, dict):
        if not isinstance(b, dict) or len(a) != len(b):
            return False
        for k, v in a.items():
            if k not in b:
                return False
            if not strict_eq(v, b[k]):
                return False
        return True
    if isinstance(a, (list, tuple)):
        if type(a) is not type(b) or len(a) != len(b):
            return False
        return all(strict_eq(x, y) for x, y in zip(a, b))
    if isinstance(b, (dict, list, tuple)):
        return False
    return _leaf_strict_eq(a, b)


def plain_eq(a, b):
    try:
        return bool(a == b)
    except Exception:
        return False


def compare(a, b):
    """'ok' | 'strict_only' (== holds, JSON leaf types differ) | 'mismatch'."""
    if strict_eq(a, b):
        return "ok"
    if plain_eq(a, b) and _same_shape(a, b):
        return "strict_only"
    return "mismatch"


def _same_shape(a, b):
    """Containers of the same kind everywhere (so only scalar leaf types differ)."""
    if isinstance(a, dict) or isinstance(b, dict):
        return (
            isinstance(a, dict)
            and isinstance(b, dict)
            and a.keys() == b.keys()
            and all(_same_shape(v, b[k]) for k, v in a.items())
        )
    if isinstance(a, (list, tuple)) or isinstance(b, (list, tuple)):
        return (
            type(a) is type(b)
            and len(a) == len(b)
            and all(_same_shape(x, y) for x, y in zip(a, b))
        )
    return True


def canon(x):
    """Order-insensitive canonical text of plain data (distinguishes 1 / true / 1.0)."""
    return json.dumps(_canon(x), sort_keys=True)


def _canon(x):
    if isinstance(x, dict):
        return {str(k): _canon(v) for k, v in x.items()}
    if isinstance(x, (list, tuple)):
        return [_canon(v) for v in x]
    if isinstance(x, float):
        return {"$f": repr(x + 0.0)}  # -0.0 and 0.0 are the same value of the same JSON type
    if isinstance(x, bool) or x is None or isinstance(x, (int, str)):
        return x
    return {"$repr": repr(x)}


def kind_of(x):
    if x is None:
        return "null"
    if isinstance(x, bool):
        return "bool"
    if isinstance(x, int):
        return "int"
    if isinstance(x, float):
        return "float"
    if isinstance(x, str):
        return "str"
    if isinstance(x, dict):
        return "dict"
    if isinstance(x, list):
        return "list"
    return type(x).__name__


# --------------------------------------------------------------------------- operations
class Outcome:
    __slots__ = ("kind", "value", "exc")

    def __init__(self, kind, value=None, exc=None):
        self.kind = kind  # "ret" | "exc"
        self.value = value
        self.exc = exc

    def brief(self):
        if self.kind == "ret":
            r = repr(self.value)
            return "ret " + (r if len(r) < 200 else r[:200] + "...")
        return f"exc {type(self.exc).__name__}: {str(self.exc)[:120]}"


def _call(fn, *a):
    try:
        return Outcome("ret", fn(*a))
    except Exception as e:  # noqa: BLE001 - the outcome *is* the exception
        return Outcome("exc", exc=e)


def _slice_value(v):
    # What list slice assignment stores for iterable v (model side).
    if isinstance(v, Mapping):
        return list(v)
    if isinstance(v, (list, tuple, bytes, bytearray)):
        return norm(v)
    return v  # str -> chars, scalars -> TypeError, both by the built-in itself


def _m_setitem(m, k, v):
    if isinstance(m, list) and isinstance(k, slice):
        m[k] = _slice_value(v)
    else:
        m[k] = norm(v)


def _m_update(m, form, other, kwargs):
    kw = {k: norm(v) for k, v in (kwargs or {}).items()}
    if form == "kwargs":
        m.update(**kw)
    elif form == "mapping":
        m.update(norm(other))
    elif form == "pairs":
        m.update([(k, norm(v)) for k, v in other])
    elif form == "mixed":
        m.update(norm(other), **kw)
    elif form == "mixed_pairs":
        m.update([(k, norm(v)) for k, v in other], **kw)
    elif form == "none":
        m.update()
    else:
        raise AssertionError(form)


def _s_update(n, form, other, kwargs):
    kw = kwargs or {}
    if form == "kwargs":
        return n.update(**kw)
    if form == "mapping":
        return n.update(other)
    if form == "pairs":
        return n.update([tuple(p) for p in other])
    if form == "mixed":
        return n.update(other, **kw)
    if form == "mixed_pairs":
        return n.update([tuple(p) for p in other], **kw)
    if form == "none":
        return n.update()
    raise AssertionError(form)


def _m_setdefault(m, k, *d):
    d = d[0] if d else None
    if k in m:
        return m[k]
    m[k] = norm(d)
    return m[k]


def _m_reset(m, v):
    if isinstance(m, dict):
        if not isinstance(v, Mapping):
            raise ValueError("reset: not a mapping")
        new = norm(v)
        m.clear()
        m.update(new)
    else:
        if isinstance(v, str) or not isinstance(v, (list, tuple, bytes, bytearray)):
            raise ValueError("reset: not a non-string sequence")
        new = norm(v)
        m[:] = new


def _m_extend(m, it):
    items = [norm(x) for x in list(it)]
    m.extend(items)


def _m_iadd(m, it):
    _m_extend(m, it)
    return m


def _m_pop(m, *a):
    if isinstance(m, dict):
        # documented deviation: a missing key returns the default (None), never raises
        k = a[0]
        d = a[1] if len(a) > 1 else None
        return m.pop(k, d)
    return m.pop(*a)


def _cmp(v):
    """Model-side operand of a comparison: tuples, bytes, ranges and deques are compared as what they are (a list
    is never equal to them and cannot be ordered against them); everything else in stored form."""
    import collections

    if isinstance(v, (tuple, bytes, bytearray, range, collections.deque)):
        return v
    return norm(v)


def _m_popitem(m):
    return m.popitem()


def _iterlist(x):
    return list(iter(x))


def _it_step(it, keys_only):
    try:
        v = to_plain(next(it))
    except StopIteration:
        return ["stop"]
    except Exception as e:  # noqa: BLE001 - e.g. RuntimeError: dictionary changed size during iteration
        return ["exc", type(e).__name__]
    return ["v"] if keys_only else ["v", v]


def _iter_mut(side):
    """A live iterator over the container, advanced k1 times, then a mutator on the same container, then k2 more
    steps: every step's outcome (value / exhausted / exception class) and the mutator's are the result. For dicts
    only the shape of each step is recorded (the order of keys is not part of what is compared)."""
    def run(n, rev, k1, mop, margs, k2):
        keys_only = isinstance(n, Mapping)
        it = reversed(n) if rev else iter(n)
        out = [_it_step(it, keys_only) for _ in range(k1)]
        r = _call(OPS[mop][side], n, *margs)
        out.append(["mut", "ok" if r.kind == "ret" else "exc:" + type(r.exc).__name__])
        out += [_it_step(it, keys_only) for _ in range(k2)]
        return out
    return run


# name -> (sut callable, model callable, mutating?, result mode)
# result modes: value | none | unordered | self | popitem | repr | bool
OPS = {
    # ---- mutators common / dict
    "setitem": (lambda n, k, v: n.__setitem__(k, v), _m_setitem, True, "none"),
    "delitem": (lambda n, k: n.__delitem__(k), lambda m, k: m.__delitem__(k), True, "none"),
    "pop": (lambda n, *a: n.pop(*a), _m_pop, True, "value"),
    "popitem": (lambda n: n.popitem(), _m_popitem, True, "popitem"),
    "clear": (lambda n: n.clear(), lambda m: m.clear(), True, "none"),
    "update": (_s_update, _m_update, True, "none"),
    "setdefault": (lambda n, *a: n.setdefault(*a), _m_setdefault, True, "value"),
    "reset": (lambda n, v: n.reset(v), _m_reset, True, "none"),
    # ---- list mutators
    "insert": (lambda n, i, v: n.insert(i, v), lambda m, i, v: m.insert(i, norm(v)), True, "none"),
    "append": (lambda n, v: n.append(v), lambda m, v: m.append(norm(v)), True, "none"),
    "extend": (lambda n, it: n.extend(it), _m_extend, True, "none"),
    "iadd": (lambda n, it: operator.iadd(n, it), _m_iadd, True, "self"),
    "remove": (lambda n, v: n.remove(v), lambda m, v: m.remove(norm(v)), True, "none"),
    "reverse": (lambda n: n.reverse(), lambda m: m.reverse(), True, "none"),
    "iter_mut": (_iter_mut(0), _iter_mut(1), True, "value"),
    # ---- reads
    "getitem": (lambda n, k: n[k], lambda m, k: m[k], False, "value"),
    "get": (lambda n, *a: n.get(*a), lambda m, *a: m.get(*a), False, "value"),
    "len": (len, len, False, "value"),
    "iter": (_iterlist, _iterlist, False, "iter"),
    "contains": (lambda n, v: v in n, lambda m, v: norm(v) in m, False, "value"),
    "call": (lambda n: n(), lambda m: norm(m), False, "value"),
    "eq": (lambda n, v: n == v, lambda m, v: m == _cmp(v), False, "bool"),
    "ne": (lambda n, v: n != v, lambda m, v: m != _cmp(v), False, "bool"),
    "req": (lambda n, v: v == n, lambda m, v: _cmp(v) == m, False, "bool"),
    "rne": (lambda n, v: v != n, lambda m, v: _cmp(v) != m, False, "bool"),
    "lt": (lambda n, v: n < v, lambda m, v: m < _cmp(v), False, "bool"),
    "le": (lambda n, v: n <= v, lambda m, v: m <= _cmp(v), False, "bool"),
    "gt": (lambda n, v: n > v, lambda m, v: m > _cmp(v), False, "bool"),
    "ge": (lambda n, v: n >= v, lambda m, v: m >= _cmp(v), False, "bool"),
    "rlt": (lambda n, v: v < n, lambda m, v: _cmp(v) < m, False, "bool"),
    "rle": (lambda n, v: v <= n, lambda m, v: _cmp(v) <= m, False, "bool"),
    "rgt": (lambda n, v: v > n, lambda m, v: _cmp(v) > m, False, "bool"),
    "rge": (lambda n, v: v >= n, lambda m, v: _cmp(v) >= m, False, "bool"),
    "reversed": (lambda n: list(reversed(n)), lambda m: list(reversed(m)), False, "value"),
    "index": (lambda n, *a: n.index(*a), lambda m, v, *a: m.index(norm(v), *a), False, "value"),
    "count": (lambda n, v: n.count(v), lambda m, v: m.count(norm(v)), False, "value"),
    "repr": (repr, lambda m: m, False, "repr"),
    "str": (str, lambda m: m, False, "repr"),
    "keys": (lambda n: list(n.keys()), lambda m: list(m.keys()), False, "unordered"),
    "values": (lambda n: list(n.values()), lambda m: list(m.values()), False, "unordered"),
    "items": (lambda n: list(n.items()), lambda m: list(m.items()), False, "unordered"),
}

DICT_MUTATORS = ["setitem", "delitem", "pop", "popitem", "clear", "update", "setdefault", "reset"]
LIST_MUTATORS = ["setitem", "delitem", "insert", "append", "extend", "iadd", "pop", "remove",
                 "reverse", "clear", "reset"]
DICT_READS = ["getitem", "get", "len", "iter", "contains", "call", "eq", "ne", "req", "rne",
              "repr", "str", "keys", "values", "items"]
LIST_READS = ["getitem", "len", "iter", "contains", "call", "eq", "ne", "req", "rne",
              "lt", "le", "gt", "ge", "rlt", "rle", "rgt", "rge", "reversed", "index", "count",
              "repr", "str"]


def is_mutator(op):
    return OPS[op][2]


def run_sut(node, op, args):
    return _call(OPS[op][0], node, *args)


def run_model(container, op, args):
    return _call(OPS[op][1], container, *args)


def apply_popitem_choice(model_container, sut_pair):
    """popitem may return any present pair; remove from the model the pair the SUT chose."""
    k, v = sut_pair
    if not isinstance(model_container, dict) or k not in model_container:
        return None
    return (k, model_container.pop(k))


def judge(op, sut, mod, iter_unordered=False):
    """Compare a SUT outcome with the model outcome of the same operation.

    Returns (verdict, detail): verdict in 'ok' | 'strict_only' | 'mismatch'.
    """
    mode = OPS[op][3]
    if mod.kind == "exc":
        if sut.kind != "exc":
            return "mismatch", f"model raised {type(mod.exc).__name__}, SUT returned {sut.brief()}"
        if not isinstance(sut.exc, type(mod.exc)):
            return "mismatch", (
                f"model raised {type(mod.exc).__name__}, SUT raised {type(sut.exc).__name__}: {sut.exc}"
            )
        return "ok", ""
    if sut.kind == "exc":
        return "mismatch", f"SUT raised {type(sut.exc).__name__}: {str(sut.exc)[:200]}; model returned {mod.brief()}"
    sv = to_plain(sut.value)
    mv = mod.value
    if mode == "none":
        return ("ok", "") if sut.value is None else ("mismatch", f"expected None, got {sv!r}")
    if mode == "self":
        return "ok", ""  # identity is checked by the session (needs the node)
    if mode == "bool":
        if type(sut.value) is not bool:
            return "mismatch", f"comparison returned non-bool {sut.value!r}"
        return ("ok", "") if sut.value == mv else ("mismatch", f"got {sut.value!r}, model {mv!r}")
    if mode == "repr":
        try:
            sv = ast.literal_eval(sut.value)
        except Exception as e:  # noqa: BLE001
            return "mismatch", f"repr not a literal: {sut.value!r} ({e})"
        v = compare(sv, mv)
        return v, "" if v == "ok" else f"repr gives {sv!r}, model {mv!r}"
    if mode == "unordered" or (mode == "iter" and iter_unordered):
        a = sorted(canon(x) for x in sv)
        b = sorted(canon(x) for x in mv)
        if a == b:
            return "ok", ""
        # plain comparison ignoring leaf types
        if len(sv) == len(mv) and all(any(plain_eq(x, y) for y in mv) for x in sv) \
                and all(any(plain_eq(x, y) for y in sv) for x in mv):
            return "strict_only", f"got {sv!r}, model {mv!r}"
        return "mismatch", f"got {sv!r}, model {mv!r}"
    if mode == "iter":
        v = compare(list(sv), list(mv))
        return v, "" if v == "ok" else f"got {sv!r}, model {mv!r}"
    v = compare(sv, mv)
    return v, "" if v == "ok" else f"got {sv!r}, model {mv!r}"
