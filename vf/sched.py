"""E4 - deterministic line-level thread scheduler with cooperative lock shims.

* Preemption points: sys.monitoring LINE events of code objects under
  <repo>/synced_collections/ executed by a *managed* thread. Standard-library frames are
  atomic blocks (a strict subset of what the GIL allows).
* Exactly one managed thread runs at a time; every other one is parked on its own
  semaphore. A policy object decides who runs next at every point.
* threading.RLock / threading.Lock are replaced by CoopRLock while the library is being
  imported, so every lock the library creates is a shim whose state (owner, count) is
  plain data: deadlock = "no enabled thread, some unfinished", leaked lock = "owned by a
  thread that has finished" - both decided on logical state, never on a timeout.
"""
import sys
import threading
import weakref

from . import boot

_real_RLock = threading.RLock
_real_Lock = threading.Lock
_registry = weakref.WeakSet()
_installed = {"on": False}


class SchedAbort(BaseException):
    """Injected into parked threads to unwind an aborted (deadlocked / over-long) run."""


class LockMisuse(RuntimeError):
    pass


class CoopRLock:
    """Pure-Python re-entrant lock cooperating with the scheduler."""

    def __init__(self):
        self.owner = None  # thread ident
        self.count = 0
        self.name = None
        _registry.add(self)

    # -- core ---------------------------------------------------------------------
    def acquire(self, blocking=True, timeout=-1):
        me = threading.get_ident()
        if SCHED.aborting:
            return True  # unwinding an aborted run: lock state is reset afterwards
        if self.owner is None:
            self.owner, self.count = me, 1
            return True
        if self.owner == me:
            self.count += 1
            return True
        s = SCHED
        if s.active and me in s.by_ident:
            if not blocking:
                return False
            s.block_on(self)
            # block_on returns when the lock is free and this thread runs
            self.owner, self.count = me, 1
            return True
        # an unmanaged thread (the controller) meets a lock held by someone else
        raise LockMisuse(f"lock held by thread {self.owner} met by unmanaged thread")

    def release(self):
        me = threading.get_ident()
        if SCHED.aborting:
            return
        if self.owner != me:
            raise RuntimeError("cannot release un-acquired lock")
        self.count -= 1
        if self.count == 0:
            self.owner = None
            SCHED.lock_freed = True

    __enter__ = acquire

    def __exit__(self, *a):
        self.release()

    def _is_owned(self):
        return self.owner == threading.get_ident()

    def locked(self):
        return self.owner is not None

    def reset(self):
        self.owner, self.count = None, 0


def install_lock_shims():
    threading.RLock = CoopRLock
    _installed["on"] = True


def uninstall_lock_shims():
    threading.RLock = _real_RLock
    _installed["on"] = False


def all_locks():
    return list(_registry)


def reset_all_locks():
    for lk in list(_registry):
        lk.reset()


def held_locks():
    return [lk for lk in list(_registry) if lk.owner is not None]


# --------------------------------------------------------------------------- policies
class PriorityPolicy:
    """PCT-style: fixed priorities, lowered at change points.

    order         : thread indices, highest priority first
    change_points : {(thread, k)}: when ``thread`` reaches its k-th point its priority
                    drops below everyone else's (delay injection). The delay sweep is the
                    case order=[victim, others...], change_points={(victim, k)}.
    """

    fast = True

    def __init__(self, order, change_points=()):
        self.order0 = list(order)  # as given: describe() must not reflect priorities lowered during the run
        self.prio = {t: len(order) - i for i, t in enumerate(order)}
        self.change = set(tuple(c) for c in change_points)
        self.hit = set()
        self.low = 0

    def describe(self):
        return {"policy": "priority", "order": list(self.order0), "change_points": sorted(self.change)}

    def at_point(self, s, me):
        key = (me, s.nsteps[me])
        if key in self.change and key not in self.hit:
            self.hit.add(key)
            self.low -= 1
            self.prio[me] = self.low
        return self.pick(s.enabled())

    def pick(self, enabled):
        return max(enabled, key=lambda t: self.prio[t])


class RandomWalkPolicy:
    fast = False
    change = frozenset()

    def __init__(self, rng, p):
        self.rng, self.p = rng, p
        self.hit = set()

    def describe(self):
        return {"policy": "random_walk", "p": self.p}

    def at_point(self, s, me):
        en = s.enabled()
        if len(en) > 1 and self.rng.random() < self.p:
            others = [t for t in en if t != me]
            return self.rng.choice(others)
        return me if me in en else self.rng.choice(en)

    def pick(self, enabled):
        return self.rng.choice(sorted(enabled))


# --------------------------------------------------------------------------- scheduler
class _MT:
    __slots__ = ("idx", "thread", "sem", "done", "blocked_on", "exc", "ident")

    def __init__(self, idx):
        self.idx = idx
        self.sem = threading.Semaphore(0)
        self.done = False
        self.blocked_on = None
        self.exc = None
        self.thread = None
        self.ident = None


class Scheduler:
    MAX_POINTS = 60000

    def __init__(self):
        self.active = False
        self.aborting = False
        self.by_ident = {}
        self.tool = None
        self.sites = set()
        self._code_ok = {}
        self.record_sites = False
        self.lock_freed = False
        self.cur_mt = None
        self.total_points = 0
        self.runs = 0

    # -- monitoring ---------------------------------------------------------------------
    def install_monitor(self):
        if self.tool is not None:
            return
        mon = sys.monitoring
        self.tool = 4  # a free tool id (0=debugger 1=coverage 2=profiler 5=optimizer)
        mon.use_tool_id(self.tool, "vf.sched")
        mon.register_callback(self.tool, mon.events.LINE, self._on_line)
        mon.set_events(self.tool, mon.events.LINE)

    def _on_line(self, code, line):
        ok = self._code_ok.get(code)
        if ok is None:
            ok = self._code_ok[code] = boot.in_library(code.co_filename)
        if not ok:
            return sys.monitoring.DISABLE
        if not self.active:
            return None
        cur = self.cur_mt
        if cur is None or cur.ident != threading.get_ident():
            return None
        # ---- a scheduling point of the running managed thread (hot path)
        me = cur.idx
        self.points += 1
        n = self.nsteps[me] = self.nsteps[me] + 1
        if self.record_sites:
            self.site_seq[me].append((code.co_filename, line))
        if self.aborting:
            raise SchedAbort()
        pol = self.policy
        if pol.fast and not self.lock_freed and (me, n) not in pol.change:
            if self.points > self.MAX_POINTS:
                self.overrun = True
                self._park_forever(me)
            return None
        self.lock_freed = False
        self.last_site = (code.co_filename, line)
        if self.points > self.MAX_POINTS:
            self.overrun = True
            self._park_forever(me)
        nxt = pol.at_point(self, me)
        if nxt != me:
            self.switch_sites.append((me, self.last_site))
            self._switch(me, nxt)
        return None

    # -- one controlled run -------------------------------------------------------------
    def run(self, bodies, policy, watchdog_s=30.0, record_sites=False):
        """Run ``bodies`` (callables) as managed threads under ``policy``.

        Returns a dict: status in ok | deadlock | overrun | watchdog, trace, points...
        """
        self.install_monitor()
        self.policy = policy
        self.mts = [_MT(i) for i in range(len(bodies))]
        self.nsteps = [0] * len(bodies)
        self.site_seq = [[] for _ in bodies]
        self.record_sites = record_sites
        self.lock_freed = False
        self.trace = []
        self.switch_sites = []
        self.by_ident = {}
        self.aborting = False
        self.deadlock = False
        self.overrun = False
        self.ctrl = threading.Semaphore(0)
        self.cur_mt = None
        self.points = 0
        self.runs += 1

        def runner(mt, body):
            mt.ident = threading.get_ident()
            self.by_ident[mt.ident] = mt
            self.ready.release()
            mt.sem.acquire()  # wait for the first turn
            try:
                if not self.aborting:
                    body()
            except SchedAbort:
                pass
            except BaseException as e:  # noqa: BLE001 - reported to the caller
                mt.exc = e
            finally:
                self._finish(mt)

        self.ready = threading.Semaphore(0)
        for mt, body in zip(self.mts, bodies):
            mt.thread = threading.Thread(target=runner, args=(mt, body), daemon=True)
            mt.thread.start()
        for _ in self.mts:
            self.ready.acquire()
        self.active = True
        first = policy.pick(self.enabled())
        self.cur_mt = self.mts[first]
        self.trace.append((-1, 0, first))
        self.cur_mt.sem.release()
        ok = self.ctrl.acquire(timeout=watchdog_s)
        status = "ok"
        if not ok:
            status = "watchdog"
        elif self.deadlock:
            status = "deadlock"
        elif self.overrun:
            status = "overrun"
        blocked = {mt.idx: getattr(mt.blocked_on, "name", None) or id(mt.blocked_on)
                   for mt in self.mts if not mt.done and mt.blocked_on is not None}
        blocked_locks = {mt.idx: mt.blocked_on for mt in self.mts if not mt.done and mt.blocked_on is not None}
        unfinished = [mt.idx for mt in self.mts if not mt.done]
        if status != "ok":
            self._abort()
        self.active = False
        self.total_points += self.points
        for mt in self.mts:
            mt.thread.join(timeout=5)
        leaked = []
        idents = {mt.ident: mt.idx for mt in self.mts}
        if status == "ok":
            for lk in held_locks():
                if lk.owner in idents:
                    leaked.append((idents[lk.owner], lk.name or hex(id(lk))))
        return {"status": status, "trace": list(self.trace), "points": self.points,
                "nsteps": list(self.nsteps), "blocked": blocked, "blocked_locks": blocked_locks,
                "unfinished": unfinished,
                "leaked": leaked, "excs": {mt.idx: mt.exc for mt in self.mts if mt.exc is not None},
                "change_hit": sorted(getattr(policy, "hit", ())),
                "switch_sites": list(self.switch_sites), "site_seq": self.site_seq}

    def enabled(self):
        out = []
        for mt in self.mts:
            if mt.done:
                continue
            if mt.blocked_on is not None and mt.blocked_on.owner is not None \
                    and mt.blocked_on.owner != mt.ident:
                continue
            out.append(mt.idx)
        return out

    # -- called from managed threads -----------------------------------------------------
    def _switch(self, me, nxt):
        self.trace.append((me, self.nsteps[me], nxt))
        self.cur_mt = self.mts[nxt]
        self.cur_mt.sem.release()
        self.mts[me].sem.acquire()
        if self.aborting:
            raise SchedAbort()

    def block_on(self, lock):
        me = self.by_ident[threading.get_ident()]
        me.blocked_on = lock
        while lock.owner is not None and lock.owner != me.ident:
            en = [t for t in self.enabled() if t != me.idx]
            if not en:
                self.deadlock = True
                self._park_forever(me.idx)
            nxt = self.policy.pick(en)
            self._switch(me.idx, nxt)
        me.blocked_on = None

    def _park_forever(self, me):
        self.ctrl.release()
        self.mts[me].sem.acquire()
        raise SchedAbort()

    def _finish(self, mt):
        mt.done = True
        mt.blocked_on = None
        if self.aborting:
            return
        if not self.active:
            return
        en = self.enabled()
        if en:
            nxt = self.policy.pick(en)
            self.trace.append((mt.idx, -1, nxt))
            self.cur_mt = self.mts[nxt]
            self.cur_mt.sem.release()
        else:
            if any(not m.done for m in self.mts):
                self.deadlock = True
            self.cur_mt = None
            self.ctrl.release()

    def _abort(self):
        self.aborting = True
        for mt in self.mts:
            if not mt.done:
                mt.sem.release()
        for mt in self.mts:
            mt.thread.join(timeout=5)
        reset_all_locks()


SCHED = Scheduler()
