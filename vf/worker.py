"""Worker process entry point: ``python -m vf.worker <check> <spec.json> <out.json>``
or ``python -m vf.worker <check> --replay <replay.json>``."""
import json
import os
import sys
import traceback


def _safe(text):
    """Printable form: details may quote data with unpaired surrogates."""
    return str(text).encode("utf-8", "backslashreplace").decode("utf-8")


def main():
    cid = sys.argv[1]
    sys.path.insert(0, os.path.dirname(os.path.dirname(os.path.abspath(__file__))))
    import importlib

    chk = importlib.import_module(f"checks.{cid.lower()}")
    if sys.argv[2] == "--replay":
        with open(sys.argv[3]) as f:
            doc = json.load(f)
        v = doc["violation"]
        vs = chk.replay(v.get("case", v))
        if vs:
            for x in vs:
                print(f"VIOLATION property={cid} replay={sys.argv[3]}")
                print(_safe("  " + x.get("detail", "")[:1000]))
            sys.exit(1)
        print(f"replay: no violation reproduced for {cid}")
        sys.exit(0)
    with open(sys.argv[2]) as f:
        spec = json.load(f)
    try:
        res = chk.run_shard(spec)
    except BaseException:  # noqa: BLE001
        traceback.print_exc()
        sys.exit(3)
    with open(sys.argv[3], "w") as f:
        json.dump(res, f, default=repr)
    sys.stdout.flush()
    os._exit(0)


if __name__ == "__main__":
    main()
