"""E3 - file-system write monitor built on sys.addaudithook.

One hook per process (audit hooks cannot be removed); it is armed / disarmed by a flag.
While armed it records write-class events on paths inside the watched directory:
open() with a writing mode/flag, os.rename (what os.replace raises), os.remove,
os.truncate, os.mkdir, os.rmdir, shutil.* . The hook runs in the thread that performs
the audited call, so its state is updated atomically with the event it shadows.

The same hook is the fault / crash injection point of vf.inject (E5): a registered
``interceptor`` is called for every file-system event (reads included) and may raise.
"""
import os
import sys
import threading

_WRITE_FLAGS = os.O_WRONLY | os.O_RDWR | os.O_CREAT | os.O_TRUNC | os.O_APPEND

_state = {
    "installed": False,
    "armed": False,
    "root": None,
    "events": [],
    "interceptor": None,
    "all_events": False,
    "tag_fn": None,   # called in the thread that performs the event; its result is stored next to the event
    "tagged": [],
}
_lock = threading.Lock()

FS_EVENTS = {
    "open", "os.rename", "os.remove", "os.truncate", "os.mkdir", "os.rmdir",
    "os.link", "os.symlink", "os.chmod", "os.utime", "shutil.copyfile", "shutil.move",
    "shutil.copymode", "shutil.copystat", "shutil.rmtree", "os.listdir", "os.scandir",
}


def _in_root(path):
    root = _state["root"]
    if root is None or path is None:
        return False
    if isinstance(path, bytes):
        try:
            path = path.decode()
        except UnicodeDecodeError:
            return False
    if not isinstance(path, str):
        return False
    return path.startswith(root)


def _hook(event, args):
    if not _state["armed"]:
        return
    if event not in FS_EVENTS:
        return
    rec = None
    if event == "open":
        path, mode, flags = args
        if not _in_root(path):
            return
        writing = bool(flags & _WRITE_FLAGS) if isinstance(flags, int) else True
        rec = ("open_w" if writing else "open_r", path, None)
    elif event in ("os.rename", "os.link", "os.symlink", "shutil.copyfile", "shutil.move"):
        src, dst = args[0], args[1]
        if not (_in_root(src) or _in_root(dst)):
            return
        rec = (event, src, dst)
    else:
        path = args[0] if args else None
        if not _in_root(path):
            return
        rec = (event, path, None)
    icpt = _state["interceptor"]
    if icpt is not None:
        icpt(rec)  # may raise (fault) or os._exit (crash)
    if rec[0] in ("open_r", "os.listdir", "os.scandir") and not _state["all_events"]:
        return
    _state["events"].append(rec)
    tf = _state["tag_fn"]
    if tf is not None:
        _state["tagged"].append((tf(), rec))


def install():
    with _lock:
        if not _state["installed"]:
            sys.addaudithook(_hook)
            _state["installed"] = True


def arm(root, all_events=False, tag_fn=None):
    install()
    _state["root"] = root.rstrip(os.sep) + os.sep
    _state["events"] = []
    _state["tag_fn"] = tag_fn
    _state["tagged"] = []
    _state["all_events"] = all_events
    _state["armed"] = True


def disarm():
    _state["armed"] = False
    ev = _state["events"]
    _state["events"] = []
    return ev


def tagged():
    """[(tag, event)] recorded since arm(tag_fn=...)."""
    return list(_state["tagged"])


def drain():
    ev = _state["events"]
    _state["events"] = []
    return ev


def set_interceptor(fn):
    _state["interceptor"] = fn


def writes_to(events, path):
    """Events that write, replace, create or delete ``path`` itself."""
    out = []
    for kind, a, b in events:
        if kind == "open_w" and a == path:
            out.append((kind, a, b))
        elif kind in ("os.rename", "os.link", "os.symlink", "shutil.copyfile", "shutil.move") and (
            b == path or a == path
        ):
            out.append((kind, a, b))
        elif kind in ("os.remove", "os.truncate", "os.chmod", "os.utime") and a == path:
            out.append((kind, a, b))
    return out


def stat_snapshot(path):
    import hashlib

    try:
        st = os.stat(path)
    except FileNotFoundError:
        return None
    with open(path, "rb") as f:
        h = hashlib.sha256(f.read()).hexdigest()
    return (st.st_ino, st.st_size, st.st_mtime_ns, h)
