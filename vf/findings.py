"""E6 - known findings: committed file, declarative mechanism patterns, never written at run time."""
import json
import os

from .boot import VERIF_ROOT

PATH = os.path.join(VERIF_ROOT, "known_findings.json")


def load():
    if not os.path.exists(PATH):
        return []
    with open(PATH) as f:
        return json.load(f)["findings"]


def _match_one(pattern, value):
    if isinstance(pattern, list):
        return value in pattern
    return pattern == value


def classify(prop, sig, entries=None):
    """Return the *known* entry whose mechanism pattern matches the violation signature."""
    entries = load() if entries is None else entries
    for e in entries:
        if e.get("status") != "known" or e.get("property") != prop:
            continue
        pat = e.get("match", {})
        if all(k in sig and _match_one(v, sig[k]) for k, v in pat.items()):
            return e
    return None
