"""Seeded generators: JSON values, shapes, operation arguments, programs.

All randomness comes from ``random.Random`` instances seeded from (VERIF_SEED, check,
shard, index), so a case is reproducible bit-for-bit. Cases are plain JSON (see
vf.session) and double as replay files.
"""
import copy
import hashlib
import json
import random

from . import model
from .session import ModelState, _kind

KEYS = ["a", "b", "c", "d", "k1", "k2", "", "x y", "ü", "\U0001F600", "0", "_x", "items"]
KEYS_DOT = ["a.b", ".", "x."]
IDENT_KEYS = ["a", "b", "c", "d", "k1", "k2", "_x", "zz"]

CLEAN_SCALARS = [
    None, True, False,
    2, 3, -7, 41, 2**70, -(2**80), 12345678901234567890,
    0.5, -2.25, 3.14, 1e308, 5e-324, -1.5e-7,
    "", "s", "text", "\u0000", "q\"\\/\b\f\n\r\t", "日本", "\U0001F600", "a.b",
]
COLLIDE_SCALARS = [0, 1, 0.0, 1.0, -0.0, 2.0, 3.0, -7.0, True, False]


def rng_for(seed, *parts):
    h = hashlib.sha256(json.dumps([seed, *parts]).encode()).digest()
    return random.Random(int.from_bytes(h[:8], "big"))


def case_key(case):
    return int.from_bytes(hashlib.sha256(json.dumps(case, sort_keys=True).encode()).digest()[:8], "big")


class G:
    def __init__(self, rng, attr=False, collide=False, tuples=True, surrogates=False):
        self.r = rng
        self.attr = attr
        self.collide = collide
        self.tuples = tuples
        self.keys = list(KEYS) + ([] if attr else KEYS_DOT)
        self.scalars = list(CLEAN_SCALARS) + (COLLIDE_SCALARS if collide else [])
        if surrogates:
            # unpaired surrogates are legal in JSON strings (what os.fsdecode gives for a non-UTF-8 file name)
            self.scalars += ["caf\udce9.dat", "\ud83d"]
            self.keys = self.keys + ["k\udc80"]
        if attr:
            pass

    # ---- values ---------------------------------------------------------------------
    def scalar(self):
        return self.r.choice(self.scalars)

    def key(self):
        return self.r.choice(self.keys)

    def value(self, depth=2, tagged=True):
        """A JSON value (tagged encoding: may contain {"$tuple": ...})."""
        r = self.r
        if depth <= 0 or r.random() < 0.45:
            return self.scalar()
        x = r.random()
        n = r.choice([0, 1, 1, 2, 2, 3])
        if x < 0.5:
            return {self.key(): self.value(depth - 1, tagged) for _ in range(n)}
        items = [self.value(depth - 1, tagged) for _ in range(n)]
        if tagged and self.tuples and r.random() < 0.15:
            return {"$tuple": items}
        if tagged and self.tuples and r.random() < 0.04:
            # bytes / bytearray are sequences of ints: stored as a list of ints
            return {"$bytes": [r.choice([0, 97, 98, 255]) for _ in range(n)]}
        return items

    def container(self, kind, depth=2, tagged=True, n=None):
        r = self.r
        n = r.choice([0, 1, 2, 3, 4]) if n is None else n
        if kind == "dict":
            return {self.key(): self.value(depth - 1, tagged) for _ in range(n)}
        return [self.value(depth - 1, tagged) for _ in range(n)]

    def shape(self, kind, depth=3):
        """Initial content: plain JSON (no tags), biased towards nested containers."""
        r = self.r

        def node(k, d):
            n = r.choice([1, 2, 3, 4]) if d > 0 else r.choice([0, 1, 2])
            out = {} if k == "dict" else []
            for _ in range(n):
                if d > 0 and r.random() < 0.55:
                    v = node(r.choice(["dict", "list"]), d - 1)
                else:
                    v = self.scalar()
                if k == "dict":
                    out[self.key()] = v
                else:
                    out.append(v)
            return out

        return node(kind, depth)

    # ---- positions -------------------------------------------------------------------
    @staticmethod
    def container_paths(content, max_depth=6):
        out = []

        def walk(x, p):
            if isinstance(x, dict):
                out.append((list(p), "dict"))
                if len(p) < max_depth:
                    for k, v in x.items():
                        walk(v, p + [k])
            elif isinstance(x, list):
                out.append((list(p), "list"))
                if len(p) < max_depth:
                    for i, v in enumerate(x):
                        walk(v, p + [i])

        walk(content, [])
        return out

    # ---- operation arguments -----------------------------------------------------------
    def _exist_or_new_key(self, t, p_exist=0.5):
        if t and self.r.random() < p_exist:
            return self.r.choice(list(t.keys()))
        return self.key()

    def _merge_value(self, old, depth):
        """A value likely to exercise the in-place merge: same kind as ``old``."""
        r = self.r
        if isinstance(old, dict) and r.random() < 0.6:
            new = {}
            for k, v in old.items():
                x = r.random()
                if x < 0.4:
                    new[k] = copy.deepcopy(v)
                elif x < 0.7:
                    new[k] = self._merge_value(v, depth - 1)
            for _ in range(r.choice([0, 0, 1, 2])):
                new[self.key()] = self.value(max(depth - 1, 0), tagged=False)
            return new
        if isinstance(old, list) and r.random() < 0.6:
            new = [copy.deepcopy(v) if r.random() < 0.5 else self._merge_value(v, depth - 1)
                   for v in old]
            x = r.random()
            if x < 0.3 and new:
                del new[r.randrange(len(new)):]
            elif x < 0.6:
                new.extend(self.value(max(depth - 1, 0), tagged=False) for _ in range(r.choice([1, 2])))
            return new
        return self.value(max(depth, 0), tagged=False)

    def idx(self, t, p_in=0.8):
        n = len(t)
        if n and self.r.random() < p_in:
            return self.r.randrange(-n, n)
        return self.r.choice([n, n + 1, -n - 1, -n - 2, 7])

    def slc(self, t):
        n = len(t)
        r = self.r

        def b():
            return r.choice([None, None] + list(range(-n - 1, n + 2)))

        return {"$slice": [b(), b(), r.choice([None, None, None, 1, 2, -1, -2, 3])]}

    def dict_mutator(self, t, depth=2, allow=None):
        r = self.r
        ops = [("setitem", 30), ("delitem", 10), ("pop", 8), ("popitem", 4), ("clear", 2),
               ("update", 12), ("setdefault", 8), ("reset", 4)]
        if allow is not None:
            ops = [(o, w) for o, w in ops if o in allow]
        if not ops:
            return "len", []
        op = r.choices([o for o, _ in ops], [w for _, w in ops])[0]
        if op == "setitem":
            k = self._exist_or_new_key(t, 0.4)
            if k in t and r.random() < 0.3:
                return op, [k, self._merge_value(t[k], depth)]
            return op, [k, self.value(depth)]
        if op == "delitem":
            return op, [self._exist_or_new_key(t, 0.8)]
        if op == "pop":
            a = [self._exist_or_new_key(t, 0.7)]
            if r.random() < 0.5:
                a.append(self.scalar())
            return op, a
        if op in ("popitem", "clear"):
            return op, []
        if op == "update":
            form = r.choice(["mapping", "pairs", "kwargs", "mixed", "mixed_pairs", "none", "mapping"])
            other, kw = None, None
            if form in ("mapping", "mixed"):
                other = {}
                for _ in range(r.choice([0, 1, 2, 3])):
                    k = self._exist_or_new_key(t, 0.5)
                    other[k] = self._merge_value(t[k], depth) if k in t and r.random() < 0.5 else self.value(depth)
            if form in ("pairs", "mixed_pairs"):
                other = [[self._exist_or_new_key(t, 0.5), self.value(depth)]
                         for _ in range(r.choice([0, 1, 2, 3]))]
            if form in ("kwargs", "mixed", "mixed_pairs"):
                idk = [k for k in t if isinstance(k, str) and k.isidentifier()] + IDENT_KEYS
                kw = {r.choice(idk): self.value(depth) for _ in range(r.choice([1, 2]))}
            return op, [form, other, kw]
        if op == "setdefault":
            a = [self._exist_or_new_key(t, 0.5)]
            if r.random() < 0.7:
                a.append(self.value(depth))
            return op, a
        if op == "reset":
            if r.random() < 0.6:
                return op, [self._merge_value(t, depth) if isinstance(self._merge_value(t, depth), dict)
                            else self.container("dict", depth)]
            return op, [self.container("dict", depth)]
        raise AssertionError(op)

    def list_mutator(self, t, depth=2, allow=None, alias=True):
        r = self.r
        ops = [("setitem", 18), ("delitem", 10), ("insert", 10), ("append", 18), ("extend", 10),
               ("iadd", 8), ("pop", 8), ("remove", 6), ("reverse", 4), ("clear", 2), ("reset", 5)]
        if allow is not None:
            ops = [(o, w) for o, w in ops if o in allow]
        if not ops:
            return "len", []
        op = r.choices([o for o, _ in ops], [w for _, w in ops])[0]
        if op == "setitem":
            if r.random() < 0.2:
                s = self.slc(t)
                v = r.choice([self.container("list", depth), {"$tuple": self.container("list", depth)},
                              "xy", self.container("list", depth, n=0)])
                return op, [s, v]
            i = self.idx(t)
            if t and -len(t) <= i < len(t) and r.random() < 0.3:
                return op, [i, self._merge_value(t[i], depth)]
            return op, [i, self.value(depth)]
        if op == "delitem":
            return op, [self.slc(t) if r.random() < 0.2 else self.idx(t)]
        if op == "insert":
            return op, [self.idx(t, 0.6), self.value(depth)]
        if op == "append":
            return op, [self.value(depth)]
        if op in ("extend", "iadd"):
            x = r.random()
            items = self.container("list", depth)
            if x < 0.55:
                return op, [items]
            if x < 0.7:
                return op, [{"$tuple": items}]
            if x < 0.85:
                return op, [{"$gen": items}]
            if x < 0.93 and alias:
                return op, [{"$self": True}]
            return op, ["xy"]
        if op == "pop":
            return op, ([] if r.random() < 0.5 else [self.idx(t)])
        if op == "remove":
            if t and r.random() < 0.75:
                return op, [copy.deepcopy(r.choice(t))]
            return op, [self.scalar()]
        if op in ("reverse", "clear"):
            return op, []
        if op == "reset":
            if r.random() < 0.6:
                m = self._merge_value(t, depth)
                return op, [m if isinstance(m, list) else self.container("list", depth)]
            v = self.container("list", depth)
            return op, [{"$tuple": v} if r.random() < 0.2 else v]
        raise AssertionError(op)

    def dict_read(self, t, allow=None):
        r = self.r
        ops = model.DICT_READS if allow is None else [o for o in model.DICT_READS if o in allow]
        op = r.choice(ops)
        if op == "getitem":
            return op, [self._exist_or_new_key(t, 0.8)]
        if op == "get":
            a = [self._exist_or_new_key(t, 0.7)]
            if r.random() < 0.4:
                a.append(self.scalar())
            return op, a
        if op == "contains":
            return op, [self._exist_or_new_key(t, 0.6)]
        if op in ("eq", "ne", "req", "rne"):
            x = r.random()
            if x < 0.4:
                return op, [copy.deepcopy(t)]
            if x < 0.5:
                return op, [{"$self": True}]
            if x < 0.65:
                return op, [{"$aux": copy.deepcopy(t)}]
            if x < 0.8:
                return op, [{"$aux": self.container("dict", 2, tagged=False)}]
            return op, [self.container("dict", 2, tagged=False)]
        return op, []

    def list_read(self, t, allow=None):
        r = self.r
        ops = model.LIST_READS if allow is None else [o for o in model.LIST_READS if o in allow]
        op = r.choice(ops)
        if op == "getitem":
            return op, [self.slc(t) if r.random() < 0.25 else self.idx(t)]
        if op in ("contains", "count"):
            return op, [copy.deepcopy(r.choice(t)) if t and r.random() < 0.6 else self.scalar()]
        if op == "index":
            a = [copy.deepcopy(r.choice(t)) if t and r.random() < 0.7 else self.scalar()]
            x = r.random()
            if x < 0.3:
                a.append(r.randrange(-len(t) - 1, len(t) + 2))
            elif x < 0.5:
                a += [r.randrange(-len(t) - 1, len(t) + 2), r.randrange(-len(t) - 1, len(t) + 2)]
            return op, a
        if op in ("eq", "ne", "req", "rne", "lt", "le", "gt", "ge", "rlt", "rle", "rgt", "rge"):
            x = r.random()
            if x < 0.2:
                v = copy.deepcopy(t)
            elif x < 0.35:
                v = copy.deepcopy(t[: max(0, len(t) - 1)])
            elif x < 0.5:
                v = copy.deepcopy(t) + [self.scalar()]
            elif x < 0.7 and t:
                v = copy.deepcopy(t)
                i = r.randrange(len(t))
                v[i] = self.comparable_like(v[i])
            elif x < 0.8:
                return op, [{"$self": True}]
            else:
                v = [self.comparable_like(e) for e in t[: r.choice([1, 2, 3])]] or [2]
            if r.random() < 0.3 and op[0] != "r":
                return op, [{"$aux": v}]
            if self.tuples and r.random() < 0.15:
                # a sequence that is not a list: never equal to a list, not ordered against one
                scal = [x for x in v if isinstance(x, int) and not isinstance(x, bool) and 0 <= x < 256]
                return op, [r.choice([{"$tuple": v}, {"$deque": v}, {"$range": [len(v)]},
                                      {"$bytes": scal[:3]}])]
            return op, [v]
        return op, []

    def comparable_like(self, e):
        """A scalar ordered against ``e`` without a TypeError where possible."""
        r = self.r
        if isinstance(e, bool) or isinstance(e, (int, float)) and not isinstance(e, bool):
            return r.choice([2, 3, -7, 41, 0.5, 3.14, -2.25])
        if isinstance(e, str):
            return r.choice(["", "s", "text", "zz"])
        if isinstance(e, list):
            return [self.comparable_like(x) for x in e]
        return copy.deepcopy(e)


# --------------------------------------------------------------------------- programs
def gen_rejected(g, ms, h, nonjson=True):
    """A multi-item mutator through handle ``h`` in which one item must be rejected (bad value, or a
    mapping with a forbidden key nested in a value) while the others are fine - as a ``rejected`` step."""
    r = g.r
    H = ms.handles[h]
    try:
        base = ms.resolve(H.res, H.path)
    except Exception:  # noqa: BLE001
        return None
    paths = G.container_paths(base)
    if not paths:
        return None
    sub, kind = r.choice(paths)
    # nonjson=False: the class only forbids non-string keys (Zarr: the codec decides about values)
    bad = {"$bad": r.choice((["object", "complex", "set", "function"] if nonjson else []) + ["intkey", "nonekey"]
                            + (["dotkey"] if g.attr else []))}
    if r.random() < 0.3:
        bad = r.choice([[1, bad], {"n": bad}])  # nested inside an otherwise fine container
    good = [g.value(1) for _ in range(r.choice([1, 2, 3]))]
    pos = r.choice([0, len(good), len(good), r.randrange(len(good) + 1)])
    items = good[:pos] + [bad] + good[pos:]
    if kind == "dict":
        t = base
        for k in sub:
            t = t[k]
        keys = []
        for _ in items:
            k = g._exist_or_new_key(t, 0.4)
            while k in keys:
                k = g.key() + str(len(keys))
            keys.append(k)
        op = r.choice(["update", "update", "reset"])
        return {"rejected": op, "h": h, "path": sub, "args": [{"$kdict": [[k, v] for k, v in zip(keys, items)]}]}
    op = r.choice(["extend", "iadd", "reset", "setslice"])
    if op == "setslice":
        return {"rejected": "setitem", "h": h, "path": sub, "args": [{"$slice": [0, 1, None]}, items]}
    return {"rejected": op, "h": h, "path": sub, "args": [items]}


def gen_program(g, ms, n_steps, p_read=0.2, depth=2, handles=None, mutator_filter=None,
                max_doc_nodes=120, p_node=0.05, p_iter_mut=0.0):
    """Generate op steps against ModelState ``ms`` (advanced as we go).

    handles: candidate handle ids (default: all roots). Targets are chosen uniformly over
    the container positions reachable from the chosen handle.
    """
    r = g.r
    steps = []
    for _ in range(n_steps):
        hs = handles if handles is not None else [h.id for h in ms.handles.values() if h.attached]
        hs = [h for h in hs if ms.handles[h].attached]
        if not hs:
            break
        h = r.choice(hs)
        H = ms.handles[h]
        try:
            base = ms.resolve(H.res, H.path)
        except Exception:  # noqa: BLE001
            continue
        paths = G.container_paths(base)
        if not paths:
            continue
        sub, kind = r.choice(paths)
        t = base
        for k in sub:
            t = t[k]
        read = r.random() < p_read
        if _count_nodes(ms.logical[H.res]) > max_doc_nodes:
            allow_d, allow_l = {"delitem", "pop", "popitem", "clear"}, {"delitem", "pop", "clear", "remove"}
        else:
            allow_d = allow_l = None
        if mutator_filter is not None:
            allow_d = set(mutator_filter) if allow_d is None else allow_d & set(mutator_filter)
            allow_l = set(mutator_filter) if allow_l is None else allow_l & set(mutator_filter)
        if kind == "dict":
            op, args = g.dict_read(t) if read else g.dict_mutator(t, depth, allow_d)
        else:
            op, args = g.list_read(t) if read else g.list_mutator(t, depth, allow_l)
        if not read and p_iter_mut and op not in ("reset", "popitem", "iadd") and r.random() < p_iter_mut:
            # the mutator runs while an iterator over the same container is live
            op, args = "iter_mut", [kind == "list" and r.random() < 0.25, r.choice([0, 1, 1, 2, 3]), op, args,
                                    r.choice([1, 2, 3, 5])]
        if not read and op in ("setitem", "append", "insert", "setdefault") and args and r.random() < p_node \
                and not isinstance(args[0], dict):
            # the value is an existing nested collection of the same document (d["b"] = d["a"]): it must be
            # copied in, the two positions stay independent
            absolute = H.path + list(sub)
            cands = [p for p, _ in G.container_paths(ms.logical[H.res], 4)
                     if p and p != absolute[:len(p)] and _count_nodes(ms.resolve(H.res, p)) < 15]
            if cands:
                args = list(args[:-1]) + [{"$node": r.choice(cands)}]
        step = {"op": op, "h": h, "path": sub, "args": args, "k": kind}
        steps.append(step)
        ms.apply_op(step)
    return steps


def _count_nodes(x):
    if isinstance(x, dict):
        return 1 + sum(_count_nodes(v) for v in x.values())
    if isinstance(x, list):
        return 1 + sum(_count_nodes(v) for v in x)
    return 1
