"""Process bootstrap: put the repository under test on sys.path, install fakes, import it.

Every worker process calls :func:`boot` exactly once before touching the library.
Nothing here edits the repository; all instrumentation is attached from outside.
"""
import os
import sys

VERIF_ROOT = os.path.dirname(os.path.dirname(os.path.abspath(__file__)))
REPO = os.path.abspath(os.environ.get("VERIF_REPO", "/repo"))
LIB_DIR = os.path.join(REPO, "synced_collections")
DEPS_DIR = os.path.join(VERIF_ROOT, ".deps")

_booted = {}


def boot(lock_shim=False, numpy=False):
    """Import the library from REPO and return the ``synced_collections`` package.

    lock_shim: replace threading.RLock / threading.Lock by the cooperative shims of
               vf.sched *before* the library is imported (E4 workers only).
    numpy:     make the git-ignored /verif/.deps (numpy wheel) importable first.
    """
    if _booted:
        return _booted["pkg"]
    sys.dont_write_bytecode = True
    # The guard the MANIFEST declares; nothing in the repository reads it (no source
    # hooks are needed), it is set so that a future hook would be enabled in checks.
    os.environ.setdefault("SYNCED_COLLECTIONS_VERIF", "1")
    if numpy and os.path.isdir(DEPS_DIR) and DEPS_DIR not in sys.path:
        sys.path.insert(0, DEPS_DIR)
    if not numpy:
        # Make sure a stray numpy does not change the library's behaviour.
        sys.modules.setdefault("numpy", None)
    if REPO in sys.path:
        sys.path.remove(REPO)
    sys.path.insert(0, REPO)

    from . import fakes

    fakes.install_stub_modules()

    if lock_shim:
        from . import sched

        sched.install_lock_shims()

    import synced_collections  # noqa: E402

    if lock_shim:
        # The library binds ``from threading import RLock`` at import time: import every
        # module that creates locks while the shim is in place, then restore threading.
        import synced_collections.backends.collection_json  # noqa: F401
        import synced_collections.backends.collection_mongodb  # noqa: F401
        import synced_collections.backends.collection_redis  # noqa: F401
        import synced_collections.backends.collection_zarr  # noqa: F401
        from . import sched

        sched.uninstall_lock_shims()
        from synced_collections.backends.collection_json import BufferedJSONDict, JSONDict

        if not isinstance(JSONDict._cls_lock, sched.CoopRLock) or not isinstance(
            BufferedJSONDict._BUFFER_LOCK, sched.CoopRLock
        ):
            raise RuntimeError("lock shim bypassed: library locks are not cooperative")

    got = os.path.abspath(os.path.dirname(synced_collections.__file__))
    if got != LIB_DIR:
        raise RuntimeError(
            f"synced_collections imported from {got}, expected {LIB_DIR}"
        )
    _booted["pkg"] = synced_collections
    _booted["lock_shim"] = lock_shim
    return synced_collections


def in_library(filename):
    """True if a code object's file lies inside the library under test."""
    return filename.startswith(LIB_DIR + os.sep)
