"""Value pool and probe battery for C19 (classification is history independent).

Everything here must be constructible identically in a fresh interpreter: values are made
by index from ``make_pool()``; outcomes are plain JSON.
"""
import array
import collections
import collections.abc as abc
import json
import os
import shutil
import sys
import tempfile


class IntSub(int):
    pass


class FloatSub(float):
    pass


class StrSub(str):
    pass


class DictSub(dict):
    pass


class ListSub(list):
    pass


class TupleSub(tuple):
    pass


class MyMapping(abc.Mapping):
    def __init__(self, d):
        self._d = dict(d)

    def __getitem__(self, k):
        return self._d[k]

    def __iter__(self):
        return iter(self._d)

    def __len__(self):
        return len(self._d)


class MySequence(abc.Sequence):
    def __init__(self, items):
        self._l = list(items)

    def __getitem__(self, i):
        return self._l[i]

    def __len__(self):
        return len(self._l)


class Both(abc.Mapping, abc.Sequence):
    """Matches the Mapping *and* the Sequence category."""

    def __init__(self):
        self._d = {"k": 1}

    def __getitem__(self, k):
        return self._d[k]

    def __iter__(self):
        return iter(self._d)

    def __len__(self):
        return len(self._d)


class BothDot(Both):
    """Both a Mapping and a Sequence, holding data whose validity depends on the category chosen."""

    def __init__(self):
        self._d = {"a.b": 1}


class BothComplex(Both):
    def __init__(self):
        self._d = {"k": 1j}


class Series(abc.Sequence):
    """A user Sequence; Table below inherits from it *and* from a user Mapping."""

    def __getitem__(self, i):
        return ["s0", "s1"][i]

    def __len__(self):
        return 2


class Record(abc.Mapping):
    def __init__(self, d=None):
        self._d = dict(d or {"r": 1})

    def __getitem__(self, k):
        return self._d[k]

    def __iter__(self):
        return iter(self._d)

    def __len__(self):
        return len(self._d)


class Table(Series, Record):
    """Sequence first, Mapping second in the MRO; which category applies decides validity."""

    def __init__(self, d):
        Record.__init__(self, d)

    def __getitem__(self, k):
        return self._d[k]

    def __iter__(self):
        return iter(self._d)

    def __len__(self):
        return len(self._d)


class Target:
    """Referent for weak proxies (kept alive in _KEEP for the live ones)."""

    def __init__(self):
        self.d = {"p": 1}

    def __getitem__(self, k):
        return self.d[k]

    def __iter__(self):
        return iter(self.d)

    def __len__(self):
        return len(self.d)

    def keys(self):
        return self.d.keys()

    def items(self):
        return self.d.items()

    def values(self):
        return self.d.values()

    def __contains__(self, k):
        return k in self.d


abc.Mapping.register(Target)
_KEEP = []


def _live_proxy():
    import weakref

    t = Target()
    _KEEP.append(t)
    del _KEEP[:-50]
    return weakref.proxy(t)


def _dead_proxy():
    import gc
    import weakref

    t = Target()
    p = weakref.proxy(t)
    del t
    gc.collect()
    return p


class _WeakList(list):
    """A list that can be weakly referenced."""


class _WeakPlain:
    def __repr__(self):
        return "<WeakPlain>"


def _live_proxy_to(factory):
    import weakref

    t = factory()
    _KEEP.append(t)
    del _KEEP[:-50]
    return weakref.proxy(t)


class Lazy:
    """A lazy proxy in the style of werkzeug's LocalProxy: one type, ``__class__`` (hence every
    isinstance check) answers for the object it is bound to; unbound, any inspection raises."""

    def __init__(self, factory=None):
        object.__setattr__(self, "_factory", factory)

    def _target(self):
        factory = object.__getattribute__(self, "_factory")
        if factory is None:
            raise RuntimeError("proxy is not bound")
        return factory()

    @property
    def __class__(self):
        return type(self._target())

    def __getattr__(self, name):
        return getattr(self._target(), name)

    def __getitem__(self, key):
        return self._target()[key]

    def __iter__(self):
        return iter(self._target())

    def __len__(self):
        return len(self._target())

    def __contains__(self, key):
        return key in self._target()

    def __repr__(self):
        return "<Lazy>"


class Neither:
    def __repr__(self):
        return "<Neither>"


class VirtualMapping:
    """Registered as a virtual Mapping before first use."""

    def __init__(self):
        self._d = {"v": 1}

    def __getitem__(self, k):
        return self._d[k]

    def __iter__(self):
        return iter(self._d)

    def __len__(self):
        return len(self._d)

    def keys(self):
        return self._d.keys()

    def items(self):
        return self._d.items()

    def values(self):
        return self._d.values()

    def get(self, k, d=None):
        return self._d.get(k, d)

    def __contains__(self, k):
        return k in self._d


abc.Mapping.register(VirtualMapping)


class PlainBase:
    """No category; its subclasses below belong to one."""

    def __repr__(self):
        return "<PlainBase>"


class BaseMap(PlainBase, abc.Mapping):
    def __init__(self):
        self._d = {"bm": 1}

    def __getitem__(self, k):
        return self._d[k]

    def __iter__(self):
        return iter(self._d)

    def __len__(self):
        return len(self._d)


class BaseSeq(PlainBase, abc.Sequence):
    def __getitem__(self, i):
        return [1, 2][i]

    def __len__(self):
        return 2


class DictChild(DictSub):
    """Same category as its base."""


class MapThenSeq(MyMapping, abc.Sequence):
    """A Mapping subclass that is also a Sequence (first match differs by registry order)."""


def _scope_a():
    class Dup(dict):  # a mapping
        pass

    return Dup


def _scope_b():
    class Dup:  # same name, no category
        def __repr__(self):
            return "<Dup-b>"

    return Dup


def _scope_c():
    class Dup(list):  # same name, a sequence
        pass

    return Dup


DupA, DupB, DupC = _scope_a(), _scope_b(), _scope_c()


def have_numpy():
    try:
        import numpy  # noqa: F401

        return True
    except Exception:  # noqa: BLE001
        return False


def make_pool():
    """[(name, factory)] - factories so that every probe gets a fresh value."""
    P = [
        ("none", lambda: None), ("true", lambda: True), ("int", lambda: 7), ("bigint", lambda: 2**80),
        ("float", lambda: 1.5), ("str", lambda: "s"), ("empty_str", lambda: ""),
        ("dict", lambda: {"a": 1}), ("empty_dict", lambda: {}), ("nested_dict", lambda: {"a": {"b": [1, {"c": 2}]}}),
        ("list", lambda: [1, 2]), ("empty_list", lambda: []), ("tuple", lambda: (1, "x")), ("empty_tuple", lambda: ()),
        ("intsub", lambda: IntSub(3)), ("floatsub", lambda: FloatSub(2.5)), ("strsub", lambda: StrSub("q")),
        ("dictsub", lambda: DictSub(a=1)), ("listsub", lambda: ListSub([1])), ("tuplesub", lambda: TupleSub((1,))),
        ("ordereddict", lambda: collections.OrderedDict(a=1)), ("defaultdict", lambda: collections.defaultdict(int, a=1)),
        ("userdict", lambda: collections.UserDict(a=1)), ("userlist", lambda: collections.UserList([1])),
        ("userstring", lambda: collections.UserString("u")),
        ("deque", lambda: collections.deque([1, 2])), ("range", lambda: range(3)), ("bytes", lambda: b"ab"),
        ("bytearray", lambda: bytearray(b"ab")), ("memoryview", lambda: memoryview(b"ab")),
        ("array", lambda: array.array("i", [1, 2])), ("set", lambda: {1}), ("frozenset", lambda: frozenset({1})),
        ("mymapping", lambda: MyMapping({"m": 1})), ("mysequence", lambda: MySequence([1, 2])),
        ("both", lambda: Both()), ("neither", lambda: Neither()), ("virtualmapping", lambda: VirtualMapping()),
        ("dup_a", lambda: DupA(a=1)), ("dup_b", lambda: DupB()), ("dup_c", lambda: DupC([1])),
        ("complex", lambda: 1 + 2j), ("intkey_dict", lambda: {1: 2}), ("dotkey_dict", lambda: {"a.b": 1}),
        ("list_of_intkey", lambda: [{1: 2}]), ("dict_items", lambda: {"a": 1}.items()),
        ("dict_keys", lambda: {"a": 1}.keys()), ("generator", lambda: (i for i in range(2))),
        ("mappingproxy", lambda: type.__dict__ and __import__("types").MappingProxyType({"p": 1})),
        ("counter", lambda: collections.Counter("aab")), ("chainmap", lambda: collections.ChainMap({"c": 1})),
        ("namedtuple", lambda: collections.namedtuple("NT", "x y")(1, 2)),
        ("both_dot", lambda: BothDot()), ("both_complex", lambda: BothComplex()),
        ("series", lambda: Series()), ("record", lambda: Record()), ("table_dot", lambda: Table({"a.b": 1})),
        ("table_intkey", lambda: Table({1: 2})), ("table_complex", lambda: Table({"k": 1j})),
        ("dead_proxy", _dead_proxy), ("live_proxy", _live_proxy),
        # reference forms of the retry / deep-first-sight histories (see retry_histories, deep_first_sight)
        ("repaired_nested", lambda: {"a": {"b": [1, {"c": 2}]}}), ("repaired_key", lambda: {"a": {"x": 1}}),
        ("dyn_userlist", lambda: type("DynUL", (collections.UserList,), {})([1])),
        ("dyn_userdict", lambda: type("DynUD", (collections.UserDict,), {})({"u": 1})),
        ("live_proxy_list", lambda: _live_proxy_to(lambda: _WeakList([1, 2]))),
        ("live_proxy_plain", lambda: _live_proxy_to(_WeakPlain)),
        ("lazy_dict", lambda: Lazy(lambda: {"z": 1})), ("lazy_list", lambda: Lazy(lambda: [1, 2])),
        ("lazy_int", lambda: Lazy(lambda: 5)), ("lazy_unbound", lambda: Lazy()),
        ("lazy_dotdict", lambda: Lazy(lambda: {"a.b": 1})),
        # classes created on the fly that die right after use (their memory - and id() - gets reused)
        ("dyn_dict", lambda: type("DynD", (dict,), {})(a=1)), ("dyn_list", lambda: type("DynL", (list,), {})([1])),
        ("dyn_plain", lambda: type("DynP", (), {})()), ("dyn_map", lambda: type("DynM", (MyMapping,), {})({"m": 1})),
        ("plainbase", lambda: PlainBase()), ("basemap", lambda: BaseMap()), ("baseseq", lambda: BaseSeq()),
        ("dictchild", lambda: DictChild(a=1)), ("mapthenseq", lambda: MapThenSeq({"ms": 1})),
    ]
    if have_numpy():
        import numpy as np

        P += [
            ("np_0d", lambda: np.array(5)), ("np_1d", lambda: np.array([1, 2])), ("np_2d", lambda: np.array([[1, 2], [3, 4]])),
            ("np_0d_float", lambda: np.array(1.5)), ("np_1d_empty", lambda: np.array([])),
            ("np_int64", lambda: np.int64(3)), ("np_float32", lambda: np.float32(1.5)), ("np_bool", lambda: np.bool_(True)),
            ("np_1d_float", lambda: np.array([1.5, 2.5])), ("np_str_array", lambda: np.array(["a", "b"])),
            ("np_complex", lambda: np.complex128(1 + 2j)), ("np_0d_complex", lambda: np.array(1 + 2j)),
            ("np_uint8_1d", lambda: np.arange(3, dtype="uint8")),
            ("list_with_np", lambda: [np.int32(1), np.array([1, 2])]), ("dict_with_np", lambda: {"a": np.array(3)}),
        ]
    return P


PROBES = ["v_string_key", "v_no_dot", "v_json", "v_attr", "from_base", "from_base_attr", "is_base_dict",
          "is_base_list", "encode", "convert_numpy", "store_dict", "store_list", "merge_update", "merge_reset",
          "store_attr", "to_base"]


def _canon(x):
    from . import model

    return model.canon(model.to_plain(x))


def run_probe(kind, value, scratch):
    """Outcome of one probe as a JSON-able record."""
    import warnings

    warnings.simplefilter("ignore")
    from synced_collections.backends import collection_json as cj
    from synced_collections import validators as V
    from synced_collections.data_types.synced_dict import SyncedDict
    from synced_collections.data_types.synced_list import SyncedList
    from synced_collections.numpy_utils import _convert_numpy
    from synced_collections.utils import SyncedCollectionJSONEncoder

    def guarded(fn):
        try:
            return fn()
        except BaseException as e:  # noqa: BLE001
            return {"exc": type(e).__name__}

    def valid(f):
        def run():
            f(value)
            return "accepted"
        return guarded(run)

    def fn():
        run_probe.n = getattr(run_probe, "n", 0) + 1
        return os.path.join(scratch, f"p{run_probe.n}.json")

    if kind == "v_string_key":
        return valid(V.require_string_key)
    if kind == "v_no_dot":
        return valid(V.no_dot_in_key)
    if kind == "v_json":
        return valid(V.json_format_validator)
    if kind == "v_attr":
        return valid(cj.json_attr_dict_validator)
    if kind in ("from_base", "from_base_attr"):
        cls = cj.JSONDict if kind == "from_base" else cj.JSONAttrDict

        def run():
            parent = cls(filename=fn())
            r = cls._from_base(value, parent=parent)
            return {"cls": type(r).__name__, "plain": _canon(r) if isinstance(r, (SyncedDict, SyncedList)) else
                    repr(type(r).__name__)}
        return guarded(run)
    if kind == "is_base_dict":
        return guarded(lambda: bool(SyncedDict.is_base_type(value)))
    if kind == "is_base_list":
        return guarded(lambda: bool(SyncedList.is_base_type(value)))
    if kind == "encode":
        return guarded(lambda: json.dumps(value, cls=SyncedCollectionJSONEncoder))
    if kind == "convert_numpy":
        return guarded(lambda: type(_convert_numpy(value)).__name__)
    if kind in ("store_dict", "store_attr"):
        cls = cj.JSONDict if kind == "store_dict" else cj.JSONAttrDict

        def run():
            d = cls(filename=fn())
            d["k"] = value
            node = d._data["k"]
            with open(d.filename, "rb") as f:
                disk = json.loads(f.read())
            return {"node": type(node).__name__, "mem": _canon(d), "disk": _canon(disk)}
        return guarded(run)
    if kind == "store_list":
        def run():
            lst = cj.JSONList(filename=fn())
            lst.append(value)
            node = lst._data[0]
            with open(lst.filename, "rb") as f:
                disk = json.loads(f.read())
            return {"node": type(node).__name__, "mem": _canon(lst), "disk": _canon(disk)}
        return guarded(run)
    if kind in ("merge_update", "merge_reset"):
        def run():
            d = cj.JSONDict(filename=fn())
            d["k"] = {"old": 1}
            d["l"] = [1]
            if kind == "merge_update":
                d.update(k=value, l=value)
            else:
                d.reset({"k": value, "l": value})
            return {"k": type(d._data["k"]).__name__, "l": type(d._data["l"]).__name__, "mem": _canon(d)}
        return guarded(run)
    if kind == "to_base":
        def run():
            d = cj.JSONDict(filename=fn())
            d["k"] = value
            b = d._to_base()
            return {"type": type(b["k"]).__name__, "plain": _canon(b)}
        return guarded(run)
    raise AssertionError(kind)


def retry_scenarios():
    """[(name, build, repair, reference pool value)]: the *same container objects* are offered twice - first in a
    form that (some) validators reject, then repaired in place; the second outcome must be the one a fresh process
    gives for the repaired value."""
    def s1():
        o = {"a": {"b": [Neither(), {"c": 2}]}}
        return o, lambda: o["a"]["b"].__setitem__(0, 1)

    def s2():
        o = {"a": {1: 1}}

        def fix():
            del o["a"][1]
            o["a"]["x"] = 1
        return o, fix

    def s3():
        o = {"a": {"p.q": 1}}

        def fix():
            del o["a"]["p.q"]
            o["a"]["x"] = 1
        return o, fix

    def s4():  # nothing to repair: an accepted value offered twice
        o = {"a": {"b": [1, {"c": 2}]}}
        return o, lambda: None

    def s5():
        o = {"a": {"b": [1, {"c": {1, 2}}]}}
        return o, lambda: o["a"]["b"][1].__setitem__("c", 2)
    return [("bad_leaf", s1, "repaired_nested"), ("bad_key", s2, "repaired_key"), ("dotted_key", s3, "repaired_key"),
            ("accepted_twice", s4, "repaired_nested"), ("bad_deep_leaf", s5, "repaired_nested")]


def deep_first_sight(kind, depth, mapping, scratch, limit=140):
    """A type that no resolver has seen yet is first met at the bottom of data nested ``depth`` levels deep, with the
    interpreter's recursion limit lowered to ``limit`` (in a thread of its own, so that the stack depth is the same
    wherever this is called from). Whatever that first encounter ends in, a small value of the same type must
    afterwards be treated as in a fresh process. Returns the outcome for the small value."""
    import threading

    if mapping:
        T = type("DynUD", (collections.UserDict,), {})
        small = lambda: T({"u": 1})  # noqa: E731
    else:
        T = type("DynUL", (collections.UserList,), {})
        small = lambda: T([1])  # noqa: E731
    v = small()
    for i in range(depth):
        v = [v] if i % 2 == 0 else {"k": v}

    def first():
        old = sys.getrecursionlimit()
        sys.setrecursionlimit(limit)
        try:
            run_probe(kind, v, scratch)
        finally:
            sys.setrecursionlimit(old)

    t = threading.Thread(target=first)
    t.start()
    t.join()
    return run_probe(kind, small(), scratch)


def reference_main():
    """``python -m vf.c19pool <index> <numpy:0|1>``: outcomes of every probe for one pool value,
    computed in a fresh interpreter that has processed nothing else."""
    idx = int(sys.argv[1])
    from . import boot

    boot.boot(numpy=sys.argv[2] == "1")
    pool = make_pool()
    name, factory = pool[idx]
    scratch = tempfile.mkdtemp(prefix="vf19_", dir="/dev/shm" if os.access("/dev/shm", os.W_OK) else None)
    try:
        out = {k: run_probe(k, factory(), scratch) for k in PROBES}
    finally:
        shutil.rmtree(scratch, ignore_errors=True)
    sys.stdout.write(json.dumps({"name": name, "outcomes": out}))


if __name__ == "__main__":
    reference_main()
