"""Runtime-monitoring framework for glotzerlab/synced_collections (see /verif/DESIGN.md)."""
