"""Shared shard loop for the E1-based checks: isolation, scratch, violation records."""
import shutil
import time
import traceback

from . import boot, catalog, gen
from .session import Session, Violation, make_scratch


def run_case(case, session_cls=Session, post=None):
    """Run one case. Returns (violations, session)."""
    boot.boot()
    info = catalog.info(case["cls"])
    cls = info.cls()
    scratch = make_scratch()
    sess = None
    vio = []
    try:
        if not catalog.quiescent(cls):
            catalog.reset_class_state(cls)
        sess = session_cls(case, scratch)
        try:
            sess.run()
            if post is not None:
                post(sess)
        except Violation as v:
            vio.append({"sig": v.sig, "detail": str(v), "step": v.step, "case": case})
        except Exception as e:  # noqa: BLE001
            vio.append({
                "sig": {"cls": info.name, "kind": "harness_or_unexpected", "exc": type(e).__name__,
                        "stratum": case.get("stratum", "")},
                "detail": "unexpected exception outside a judged operation:\n" + traceback.format_exc()[-1500:],
                "case": case,
            })
        if sess is not None and sess.strict_only and not vio:
            first = sess.strict_only[0]
            vio.append({
                "sig": {"cls": info.name, "family": info.family, "kind": "type_only",
                        "stratum": case.get("stratum", ""), "op": first.get("op"),
                        "where": first.get("where")},
                "detail": "content equal under == but JSON leaf types differ: " + str(sess.strict_only[:3])[:600],
                "case": case,
            })
    finally:
        try:
            if info.buffered:
                catalog.reset_class_state(cls)
        finally:
            shutil.rmtree(scratch, ignore_errors=True)
    return vio, sess


def run_shard(spec, make_case, nontrivial=None, budget_s=None, session_cls=Session, post=None):
    """spec: {"seed":..., "shard":..., "start":..., "count":..., ...}; make_case(spec, i) -> case."""
    boot.boot()
    t0 = time.time()
    out = {"evaluations": 0, "keys": [], "violations": [], "samples": [], "counters": {}, "strata": {}}
    keys = set()
    for i in range(spec["start"], spec["start"] + spec["count"]):
        if budget_s is not None and time.time() - t0 > budget_s:
            out["counters"]["budget_cut"] = out["counters"].get("budget_cut", 0) + 1
            break
        case = make_case(spec, i)
        if case is None:
            continue
        vio, sess = run_case(case, session_cls, post)
        out["evaluations"] += 1
        st = out["strata"].setdefault(case.get("stratum", "default"), {"cases": 0, "violations": 0, "steps": 0})
        st["cases"] += 1
        st["steps"] += len(case.get("steps", []))
        if sess is not None:
            for k, v in sess.counters.items():
                out["counters"][k] = out["counters"].get(k, 0) + v
            if nontrivial is None or nontrivial(case, sess):
                keys.add(gen.case_key(case))
        if vio:
            st["violations"] += len(vio)
            if len(out["violations"]) < 40:
                out["violations"].extend(vio[:2])
        if len(out["samples"]) < 2 and sess is not None:
            out["samples"].append(_sample(case))
    out["keys"] = sorted(keys)
    return out


def _sample(case):
    c = dict(case)
    steps = c.get("steps", [])
    if len(steps) > 8:
        c["steps"] = steps[:8] + [f"... {len(steps) - 8} more steps"]
    return c


def split(total, shards):
    """[(start, count)] covering range(total) in ``shards`` nearly equal pieces."""
    shards = max(1, min(shards, total))
    base, rem = divmod(total, shards)
    out, s = [], 0
    for i in range(shards):
        n = base + (1 if i < rem else 0)
        out.append((s, n))
        s += n
    return out
