import argparse
import os
import sys


def main():
    ap = argparse.ArgumentParser()
    ap.add_argument("check")
    ap.add_argument("--tier", default=os.environ.get("VERIF_TIER", "quick"), choices=["quick", "thorough"])
    ap.add_argument("--seed", type=int, default=int(os.environ.get("VERIF_SEED", "0")))
    ap.add_argument("--replay")
    a = ap.parse_args()
    from . import runner

    sys.exit(runner.main(a.check.upper(), a.tier, a.seed, a.replay))


if __name__ == "__main__":
    main()
