"""E5 - crash and fault injectors.

Crash (C08): the parent prepares the scenario, then fork()s one child per crash point; the
child arms exactly one of
  * a LINE counter  - os._exit at the k-th executed library line,
  * an audit-event counter - os._exit *before* the j-th file-system event, or at the first
    library line *after* it,
  * RLIMIT_FSIZE=n with SIGXFSZ=SIG_DFL - the kernel kills the process once a write would
    take a file beyond n bytes, however the code performs the write,
runs the action and exits. The parent inspects the files afterwards.

Faults (C10, C07): an audit-hook interceptor raising OSError(EIO) at the j-th file-system
event of an operation; RLIMIT_FSIZE with SIGXFSZ ignored (write() raises EFBIG).
"""
import errno
import os
import resource
import signal
import sys

from . import boot, fsmon

CRASH_EXIT = 77
DONE_EXIT = 0
ERROR_EXIT = 78  # the action raised (reported, never a crash)

_TOOL = 3


# --------------------------------------------------------------------------- faults
class FaultAtEvent:
    """Raise OSError(EIO) at the j-th file-system event (reads included) seen by the hook."""

    def __init__(self, j, err=errno.EIO, kinds=None, exc=None):
        self.j = j
        self.n = 0
        self.err = err
        self.kinds = kinds
        self.fired = None
        self.exc = exc  # raise this exception class instead of OSError(err)

    def __call__(self, rec):
        if self.kinds is not None and rec[0] not in self.kinds:
            return
        self.n += 1
        if self.n == self.j:
            self.fired = rec
            if self.exc is not None:
                raise self.exc("[injected]")
            raise OSError(self.err, os.strerror(self.err) + " [injected]", rec[1])


class CountEvents:
    def __init__(self):
        self.events = []

    def __call__(self, rec):
        self.events.append(rec)


def with_interceptor(scratch, icpt, fn):
    """Run fn() with the audit hook armed on ``scratch`` and ``icpt`` intercepting."""
    fsmon.arm(scratch, all_events=True)
    fsmon.set_interceptor(icpt)
    try:
        return fn()
    finally:
        fsmon.set_interceptor(None)
        fsmon.disarm()


class FileSizeLimit:
    """Context: write() beyond ``n`` bytes of any file fails with EFBIG (SIGXFSZ ignored)."""

    def __init__(self, n):
        self.n = n

    def __enter__(self):
        self.old = resource.getrlimit(resource.RLIMIT_FSIZE)
        self.oldsig = signal.signal(signal.SIGXFSZ, signal.SIG_IGN)
        resource.setrlimit(resource.RLIMIT_FSIZE, (self.n, self.old[1]))

    def __exit__(self, *a):
        resource.setrlimit(resource.RLIMIT_FSIZE, self.old)
        signal.signal(signal.SIGXFSZ, self.oldsig)


# --------------------------------------------------------------------------- crashes
def _install_line_counter(k, after_event=None):
    """os._exit(CRASH_EXIT) at the k-th library LINE event (k>=1).

    after_event: instead of counting from the start, arm the counter only once
    ``after_event['seen']`` is true (first library line after a file-system event)."""
    mon = sys.monitoring
    try:
        mon.use_tool_id(_TOOL, "vf.inject")
    except ValueError:
        pass
    state = {"n": 0}
    ok_cache = {}

    def on_line(code, line):
        ok = ok_cache.get(code)
        if ok is None:
            ok = ok_cache[code] = boot.in_library(code.co_filename)
        if not ok:
            return mon.DISABLE
        if after_event is not None:
            if after_event["seen"]:
                os._exit(CRASH_EXIT)
            return None
        state["n"] += 1
        if state["n"] == k:
            os._exit(CRASH_EXIT)
        return None

    mon.register_callback(_TOOL, mon.events.LINE, on_line)
    mon.set_events(_TOOL, mon.events.LINE)
    return state


def count_lines(action):
    """Number of library LINE events executed by action() in this process."""
    mon = sys.monitoring
    try:
        mon.use_tool_id(_TOOL, "vf.inject")
    except ValueError:
        pass
    state = {"n": 0}
    ok_cache = {}

    def on_line(code, line):
        ok = ok_cache.get(code)
        if ok is None:
            ok = ok_cache[code] = boot.in_library(code.co_filename)
        if not ok:
            return mon.DISABLE
        state["n"] += 1
        return None

    mon.register_callback(_TOOL, mon.events.LINE, on_line)
    mon.set_events(_TOOL, mon.events.LINE)
    try:
        action()
    finally:
        mon.set_events(_TOOL, 0)
        mon.register_callback(_TOOL, mon.events.LINE, None)
    return state["n"]


def run_in_child(scratch, action, point):
    """fork(); in the child arm ``point`` and run ``action``. Returns (how, code).

    point: ("line", k) | ("before_event", j) | ("after_event", j) | ("fsize", n) | ("none",)
    how  : "crashed" | "completed" | "raised" | "signal"
    """
    sys.stdout.flush()
    sys.stderr.flush()
    pid = os.fork()
    if pid == 0:
        code = DONE_EXIT
        try:
            kind = point[0]
            if kind == "line":
                _install_line_counter(point[1])
            elif kind in ("before_event", "after_event"):
                j = point[1]
                flag = {"seen": False, "n": 0}

                def icpt(rec, _j=j, _kind=kind, _flag=flag):
                    _flag["n"] += 1
                    if _flag["n"] == _j:
                        if _kind == "before_event":
                            os._exit(CRASH_EXIT)
                        _flag["seen"] = True

                if kind == "after_event":
                    _install_line_counter(0, after_event=flag)
                fsmon.arm(scratch, all_events=True)
                fsmon.set_interceptor(icpt)
            elif kind == "fsize":
                signal.signal(signal.SIGXFSZ, signal.SIG_DFL)
                hard = resource.getrlimit(resource.RLIMIT_FSIZE)[1]
                resource.setrlimit(resource.RLIMIT_FSIZE, (point[1], hard))
            try:
                action()
            except BaseException:  # noqa: BLE001
                code = ERROR_EXIT
        finally:
            os._exit(code)
    _, status = os.waitpid(pid, 0)
    if os.WIFSIGNALED(status):
        return "signal", os.WTERMSIG(status)
    ec = os.WEXITSTATUS(status)
    if ec == CRASH_EXIT:
        return "crashed", ec
    if ec == ERROR_EXIT:
        return "raised", ec
    return "completed", ec
