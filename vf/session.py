"""E1 - reference-model monitor: run a case (a JSON program) on the real library and on the
plain model side by side and report where they part.

A *case* is a JSON document::

    {"cls": "JSONDict", "cfg": {"wc": false, "threading": true},
     "res": [<initial content or "<MISSING>">, ...],      # one entry per resource
     "roots": [[handle_id, res_index], ...],                # objects created up front
     "steps": [ {...}, ... ], "stratum": "...", "oracle": {...flags...}}

Step kinds::

    {"op": name, "h": handle, "path": [...], "args": [...]}   operation via a handle
    {"retain": new_id, "h": handle, "path": [...]}            keep a nested child handle
    {"new_root": new_id, "res": r}                             another object on resource r
    {"outside": value, "res": r, "bump": bool}                 out-of-band rewrite
    {"enter": "obj", "h": root} / {"enter": "backend", "cap": n|null} / {"exit": 1}
    {"setcap": n}

The model side (``ModelState``) is also used alone by the generators, so that programs
are produced against the state they will actually meet.
"""
import copy
import os

from . import catalog, fsmon, model
from .catalog import MISSING
from .model import Outcome


class HandleM:
    __slots__ = ("id", "res", "root", "path", "kind", "attached", "is_root")

    def __init__(self, id, res, root, path, kind, is_root):
        self.id, self.res, self.root, self.path = id, res, root, list(path)
        self.kind, self.is_root, self.attached = kind, is_root, True


def _empty(kind):
    return {} if kind == "dict" else []


def _kind(x):
    if isinstance(x, dict):
        return "dict"
    if isinstance(x, list):
        return "list"
    return "scalar"


class ModelState:
    """Plain model of resources, logical contents, handles and buffered contexts."""

    def __init__(self, kind, initial):
        self.kind = kind
        self.truth = [copy.deepcopy(x) for x in initial]
        self.logical = [
            _empty(kind) if x == MISSING else copy.deepcopy(x) for x in initial
        ]
        self.may_create = [False] * len(initial)
        self.dirty = ["clean"] * len(initial)  # while buffered: clean | maybe | dirty
        self.handles = {}
        self.obj_count = {}
        self.backend_count = 0
        self.stack = []

    # ---- handles ---------------------------------------------------------------
    def add_root(self, hid, res):
        self.handles[hid] = HandleM(hid, res, hid, [], self.kind, True)
        self.obj_count[hid] = 0

    def resolve(self, res, path):
        m = self.logical[res]
        for k in path:
            m = m[k]
        return m

    def abs_path(self, h, sub):
        return self.handles[h].path + list(sub)

    def retain(self, new_id, h, sub):
        H = self.handles.get(h)
        if H is None or not H.attached:
            return False  # the source handle could not be created / is no longer tracked
        p = H.path + list(sub)
        try:
            target = self.resolve(H.res, p)
        except (LookupError, TypeError):
            return False
        k = _kind(target)
        if k == "scalar":
            return False
        self.handles[new_id] = HandleM(new_id, H.res, H.root, p, k, False)
        return True

    def is_buffered_root(self, root):
        return self.obj_count.get(root, 0) > 0 or self.backend_count > 0

    def res_buffered(self, res):
        return any(
            h.is_root and h.res == res and self.is_buffered_root(h.id)
            for h in self.handles.values()
        )

    def roots_of(self, res):
        return [h.id for h in self.handles.values() if h.is_root and h.res == res]

    # ---- attachment bookkeeping (C02 wording, conservative) ------------------------
    def _detach_same_parent(self, root, parent_path, key, whole):
        """An operation through ``root``'s tree at parent_path targeted ``key``
        (or every position when ``whole``)."""
        n = len(parent_path)
        for h in self.handles.values():
            if h.is_root or not h.attached or h.root != root:
                continue
            if len(h.path) > n and h.path[:n] == parent_path:
                if whole or h.path[n] == key:
                    h.attached = False

    def _recheck_kinds(self, res):
        for h in self.handles.values():
            if h.is_root or not h.attached or h.res != res:
                continue
            try:
                t = self.resolve(res, h.path)
            except (LookupError, TypeError):
                h.attached = False
                continue
            if _kind(t) != h.kind:
                h.attached = False

    # ---- operations ---------------------------------------------------------------------
    def apply_op(self, step, sut_outcome=None, aux_plain=None):
        """Apply an op step to the model. Returns (Outcome, target_container_or_None)."""
        H = self.handles[step["h"]]
        res = H.res
        path = H.path + list(step.get("path", []))
        op = step["op"]
        try:
            target = self.resolve(res, path)
        except Exception as e:  # noqa: BLE001 - navigation failed the way built-ins fail
            return Outcome("exc", exc=e), None
        args = [
            model.decode(a, self_obj=target, aux=aux_plain or (lambda v: model.norm(model.decode(v))),
                         node=lambda p_: copy.deepcopy(self.resolve(res, p_)))
            for a in step.get("args", [])
        ]
        mut = model.is_mutator(op)
        if isinstance(target, dict) and op in ("setitem", "setdefault") and args and not isinstance(args[0], str):
            # documented deviation: forbidden (non-string) keys are rejected. Generated programs never do
            # this on purpose; it happens when the run-time state differs from the one the program was
            # generated for (popitem may return any pair, an injected fault may or may not take effect).
            try:
                hash(args[0])
                return Outcome("exc", exc=TypeError("non-string key rejected")), target
            except TypeError as e:
                return Outcome("exc", exc=e), target
        before = copy.deepcopy(self.logical[res]) if mut and self.truth[res] == MISSING else None
        if op == "popitem" and sut_outcome is not None and sut_outcome.kind == "ret" \
                and isinstance(target, dict) and target:
            pair = sut_outcome.value
            try:
                k = pair[0]
                if k in target:
                    v = target.pop(k)
                    out = Outcome("ret", (k, v))
                else:
                    out = Outcome("ret", ("<not-present>", pair))
            except Exception:  # noqa: BLE001
                out = Outcome("ret", ("<bad-popitem-result>", None))
        else:
            out = model.run_model(target, op, args)
        if mut:
            self._after_mutation(H, res, path, op, args, out, before)
        return out, target

    def _after_mutation(self, H, res, path, op, args, out, before=None):
        root = H.root
        unchanged = before is not None and model.strict_eq(before, self.logical[res])
        # rule (ii): same parent object
        whole, key = True, None
        tgt = self._safe_resolve(res, path)
        if isinstance(tgt, dict) and op in ("setitem", "delitem", "pop", "setdefault") and args:
            try:
                hash(args[0])
                whole, key = False, args[0]
            except TypeError:
                pass
        if isinstance(tgt, dict) and op == "update" and len(args) == 3:
            # update() reassigns only the positions it names: children under the other keys stay attached
            named = []
            try:
                other = args[1]
                named += list(other) if isinstance(other, dict) else [p[0] for p in (other or [])]
                named += list(args[2] or {})
                for k in named:
                    hash(k)
                for k in named:
                    self._detach_same_parent(root, path, k, False)
                whole = None
            except (TypeError, IndexError, KeyError):
                whole = True
        if isinstance(tgt, list) and whole:
            if op in ("append", "extend", "iadd"):
                whole = None  # nothing that exists is reassigned, removed or moved
            elif op == "setitem" and args and isinstance(args[0], int) and not isinstance(args[0], bool):
                # item assignment reassigns one position (the list in the model is already the new one, same length)
                i = args[0] + len(tgt) if args[0] < 0 else args[0]
                if 0 <= i < len(tgt):
                    whole, key = False, i
        if whole is not None:
            self._detach_same_parent(root, path, key, whole)
        # rule (i): kinds along every retained path
        self._recheck_kinds(res)
        # resource bookkeeping
        ok = out.kind == "ret"
        if self.is_buffered_root(root):
            if ok:
                self.dirty[res] = "dirty"
            elif self.dirty[res] == "clean":
                self.dirty[res] = "maybe"
        else:
            if ok and not (self.truth[res] == MISSING and unchanged):
                self.truth[res] = copy.deepcopy(self.logical[res])
                self.may_create[res] = False
            elif self.truth[res] == MISSING:
                # a failed or content-preserving mutator on a missing resource may or may not
                # create it (holding the unchanged, empty content): both are accepted
                self.may_create[res] = True

    def _safe_resolve(self, res, path):
        try:
            return self.resolve(res, path)
        except Exception:  # noqa: BLE001
            return None

    def outside(self, res, value):
        self.truth[res] = copy.deepcopy(value)
        self.logical[res] = copy.deepcopy(value)
        self.may_create[res] = False
        self._recheck_kinds(res)

    # ---- buffered contexts ----------------------------------------------------------------
    def enter(self, step):
        if step["enter"] == "obj":
            root = step["h"]
            was = self.is_buffered_root(root)
            self.obj_count[root] += 1
            self.stack.append(("obj", root))
            if not was:
                self._begin_buffered([root])
        else:
            was = {r: self.is_buffered_root(r) for r in self.obj_count}
            self.backend_count += 1
            self.stack.append(("backend", step.get("cap")))
            self._begin_buffered([r for r, w in was.items() if not w])

    def _begin_buffered(self, roots):
        for r in roots:
            res = self.handles[r].res
            # dirty tracking starts when the first object of the resource becomes buffered
            others = [x for x in self.roots_of(res) if x != r and self.is_buffered_root(x)]
            if not others:
                self.dirty[res] = "clean"

    def exit(self, which=None):
        """Leave the innermost context (or, with ``which`` = root id, that root's most recent
        ``buffered`` context - per-object contexts are independent objects and may be left in
        any order). Returns the list of resources that get flushed."""
        if which is None:
            kind, x = self.stack.pop()
        else:
            idx = max(i for i, e in enumerate(self.stack) if e == ("obj", which))
            kind, x = self.stack.pop(idx)
        before = {r: self.is_buffered_root(r) for r in self.obj_count}
        if kind == "obj":
            self.obj_count[x] -= 1
        else:
            self.backend_count -= 1
        flushed = []
        for r, was in before.items():
            if was and not self.is_buffered_root(r):
                res = self.handles[r].res
                if res not in flushed:
                    flushed.append(res)
        return flushed

    def note_flushed(self, res):
        """Expected resource content after the flush of ``res``; returns acceptable truths."""
        d = self.dirty[res]
        if self.res_buffered(res):
            # another object on the same resource is still buffered: nothing is promised
            return None
        acc = []
        if d in ("clean", "maybe"):
            acc.append(self.truth[res])
        if d in ("dirty", "maybe"):
            acc.append(self.logical[res])
            if self.truth[res] == MISSING and self.logical[res] == _empty(self.kind):
                # nothing but the empty container to write over a missing file: a strategy that
                # compares content may skip the write
                acc.append(MISSING)
        return acc


class StopCase(Exception):
    """The case cannot be continued meaningfully (not a violation)."""


class Violation(Exception):
    def __init__(self, kind, step, detail, sig=None):
        super().__init__(f"[{kind}] step {step}: {detail}")
        self.kind, self.step, self.detail = kind, step, detail
        self.sig = sig or {}


DEFAULT_ORACLE = {
    "results": True,  # every op outcome agrees with the model
    "resource_each_step": True,  # probe every unbuffered resource after every step
    "resource_strict": True,  # strict_eq (JSON leaf types) for resource content
    "buffer_defers": False,  # no write to a buffered file before its outermost exit (E3)
    "final_call": True,  # one obj() through each root at the end
    "no_create_on_read": False,
}


class Session:
    """Runs one case on the real library next to the model."""

    def __init__(self, case, scratch):
        self.case = case
        self.info = catalog.info(case["cls"])
        self.cls = self.info.cls()
        self.cfg = case.get("cfg", {})
        self.oracle = {**DEFAULT_ORACLE, **case.get("oracle", {})}
        self.scratch = scratch
        self.strict_only = []  # strict-only differences seen (KF-TYPE candidates)
        self.raw_history = {}
        self.step_index = -1
        self.objs = {}
        self.aux_count = 0
        self.ctx_stack = []
        self.resources = []
        self.counters = {"ops": 0, "mut": 0, "reads": 0, "probes": 0, "fs_events": 0,
                         "buffered_steps": 0, "excs": 0}
        shared_store = None
        for i, init in enumerate(case["res"]):
            r = catalog.Resource(self.info, scratch, f"r{i}", store=shared_store, symlink=case.get("symlink"))
            if r.store is not None and shared_store is None:
                shared_store = r.store
            if init != MISSING:
                r.outside_write(init, bump=False)
            self.resources.append(r)
        self.model = ModelState(self.info.kind, case["res"])

    # ---- threading configuration -------------------------------------------------
    def _apply_cfg(self):
        self._restore_threading = None
        if self.info.backend == "json":
            want = self.cfg.get("threading", True)
            if not want:
                self.cls.disable_multithreading()
                d, l = self.info.family_classes()
                for c in (d, l):
                    c.disable_multithreading()
                self._restore_threading = (d, l)

    def _restore_cfg(self):
        if self._restore_threading:
            for c in self._restore_threading:
                c.enable_multithreading()

    # ---- helpers -----------------------------------------------------------------------
    def _aux_sut(self, value):
        """A second synced object of the same class holding ``value`` (comparison operand)."""
        self.aux_count += 1
        r = catalog.Resource(self.info, self.scratch, f"aux{self.aux_count}",
                             store=self.resources[0].store)
        plain = model.norm(model.decode(value))
        r.outside_write(plain, bump=False)
        d, l = self.info.family_classes()
        return r.new_handle(write_concern=self.cfg.get("wc", False),
                            cls=d if isinstance(plain, dict) else l)

    def _navigate(self, h, sub):
        node = self.objs[h]
        for k in sub:
            node = node[k]
        return node

    def viol(self, kind, detail, **sig):
        base = {"cls": self.info.name, "family": self.info.family, "strategy": self.info.strategy,
                "kind": kind, "stratum": self.case.get("stratum", "")}
        base.update(sig)
        raise Violation(kind, self.step_index, detail, base)

    # ---- resource checks ---------------------------------------------------------------
    def check_resource(self, res, where, op=None):
        r = self.resources[res]
        got = r.probe()
        self.counters["probes"] += 1
        m = self.model
        want = m.truth[res]
        if got == MISSING or want == MISSING:
            if got == want:
                return
            if want == MISSING and m.may_create[res]:
                v = model.compare(got, m.logical[res])
                if v == "ok":
                    m.truth[res] = copy.deepcopy(m.logical[res])
                    m.may_create[res] = False
                    return
            self.viol("resource", f"{where}: resource holds {got!r}, expected {want!r}", op=op,
                      sub="missing" if got == MISSING else "unexpected_create")
        v = model.compare(got, want)
        if v == "ok":
            return
        if v == "strict_only":
            if self.oracle["resource_strict"]:
                self.strict_only.append({"step": self.step_index, "where": where, "op": op,
                                         "got": model.canon(got), "want": model.canon(want)})
                # keep the model in step with what == considers equal so that later steps
                # are judged on their own
                return
            return
        self.viol("resource", f"{where}: resource holds {got!r}, expected {want!r}", op=op,
                  sub="content")

    # ---- the interpreter ---------------------------------------------------------------
    def run(self):
        self._apply_cfg()
        try:
            for hid, res in self.case["roots"]:
                self._new_root(hid, res)
            try:
                for i, step in enumerate(self.case["steps"]):
                    self.step_index = i
                    self.do_step(step)
                self.step_index = len(self.case["steps"])
                self.finish()
            except StopCase:
                self.counters["cases_stopped_early"] = self.counters.get("cases_stopped_early", 0) + 1
        finally:
            self.unwind()
            self._restore_cfg()

    def _copied_root(self, step):
        """A second object on the resource obtained by copy.deepcopy() / a pickle round trip of an existing root
        object: it must be an independent, fully working handle on the same resource."""
        import copy as _copy
        import pickle

        src = step["src"]
        if src not in self.objs or src not in self.model.handles or not self.model.handles[src].is_root:
            return
        try:
            if step["via"] == "deepcopy":
                obj = _copy.deepcopy(self.objs[src])
            else:
                obj = pickle.loads(pickle.dumps(self.objs[src]))
        except Exception as e:  # noqa: BLE001
            self.viol("copy_failed", f"{step['via']} of a root collection raised {type(e).__name__}: {e}",
                      op=step["via"])
        if obj is self.objs[src] or type(obj) is not type(self.objs[src]):
            self.viol("copy_failed", f"{step['via']} returned {type(obj).__name__} / the object itself", op=step["via"])
        self.objs[step["new_root"]] = obj
        self.model.add_root(step["new_root"], self.model.handles[src].res)
        self.counters["copied_roots"] = self.counters.get("copied_roots", 0) + 1

    def _new_root(self, hid, res):
        data = (self.case.get("root_data") or {}).get(str(hid))
        kw = {"data": model.norm(model.decode(data))} if data is not None else {}
        self.objs[hid] = self.resources[res].new_handle(write_concern=self.cfg.get("wc", False), **kw)
        self.model.add_root(hid, res)
        if data is not None:
            # constructor data is taken as the (in-memory) content without touching the resource
            self.model.logical[res] = model.norm(model.decode(data))

    def unwind(self):
        while self.ctx_stack:
            cm = self.ctx_stack.pop()
            try:
                cm.__exit__(None, None, None)
            except Exception:  # noqa: BLE001 - isolation only
                pass

    def do_step(self, step):
        if self.case.get("track_raw"):
            for r_i, r in enumerate(self.resources):
                h = self.raw_history.setdefault(r_i, [])
                raw = r.raw()
                cur = self.model.truth[r_i]
                if not h or not (h[-1][1] == cur and model.strict_eq(h[-1][1], cur)):
                    h.append([raw, copy.deepcopy(cur)])
                else:
                    h[-1][0] = raw  # same content, latest bytes
        if "op" in step:
            return self._do_op(step)
        if "rejected" in step:
            return self._do_rejected(step)
        if "retain" in step:
            ok = self.model.retain(step["retain"], step["h"], step.get("path", []))
            if ok:
                try:
                    self.objs[step["retain"]] = self._navigate(step["h"], step.get("path", []))
                except Exception as e:  # noqa: BLE001
                    self.viol("navigation", f"navigation to retained child failed: {type(e).__name__}: {e}",
                              op="retain")
                want_cls = self.info.family_classes()[0 if self.model.handles[step["retain"]].kind == "dict" else 1]
                if type(self.objs[step["retain"]]) is not want_cls:
                    self.viol("family", f"child at {step.get('path')} is {type(self.objs[step['retain']]).__name__}, "
                              f"expected {want_cls.__name__}", op="retain")
            return
        if "new_root" in step and "via" in step:
            return self._copied_root(step)
        if "new_root" in step:
            return self._new_root(step["new_root"], step["res"])
        if "outside" in step:
            self.resources[step["res"]].outside_write(model.norm(model.decode(step["outside"])),
                                                      bump=step.get("bump", True),
                                                      replace=bool(step.get("replace")))
            self.model.outside(step["res"], model.norm(model.decode(step["outside"])))
            if "trans" in step:
                k = "trans:" + step["trans"]
                self.counters[k] = self.counters.get(k, 0) + 1
            return
        if "drop" in step:
            # the program drops its last reference to an object (and to its children); a collection run
            # makes sure it is really gone before anything else happens
            import gc

            dead = [hid for hid, H in self.model.handles.items() if H.root == step["drop"]]
            for hid in dead:
                self.objs.pop(hid, None)
                self.model.handles[hid].attached = False
            self.model.dropped = getattr(self.model, "dropped", set()) | set(dead)
            gc.collect()
            self.counters["drops"] = self.counters.get("drops", 0) + 1
            return
        if "restore" in step:
            # the outside writer puts back, byte for byte, what the resource held ``restore`` snapshots ago
            hist = self.raw_history.get(step["res"], [])
            if len(hist) > step["restore"]:
                raw, content = hist[-1 - step["restore"]]
                if raw is not None:
                    if self.info.backend == "mongo":  # documents have no byte form in the fake
                        self.resources[step["res"]].outside_write(copy.deepcopy(content))
                    else:
                        self.resources[step["res"]].outside_write(None, raw=raw, bump=step.get("bump", False))
                    self.model.outside(step["res"], copy.deepcopy(content))
                    self.counters["restores"] = self.counters.get("restores", 0) + 1
            return
        if "enter" in step:
            return self._do_enter(step)
        if "exit" in step:
            return self._do_exit(step)
        if "setcap" in step:
            self.cls.set_buffer_capacity(step["setcap"])
            return
        raise ValueError(f"unknown step {step}")

    def _arm(self):
        if self.info.backend == "json" and self.oracle["buffer_defers"]:
            fsmon.arm(self.scratch)
            return True
        return False

    def _do_op(self, step):
        m = self.model
        h = step["h"]
        H = m.handles.get(h)
        if H is None or h not in self.objs:
            return  # handle was never created (retain failed on the model side)
        op = step["op"]
        checked = H.attached
        mut = model.is_mutator(op)
        if mut and not checked:
            # The run-time model no longer tracks this handle (it can differ from the generation-time model:
            # popitem may return any pair, a restore step brings back content the generator did not know).
            # Nothing is defined for a write through it, so the step is not executed at all.
            self.counters["skipped_mutators_on_untracked_handles"] = \
                self.counters.get("skipped_mutators_on_untracked_handles", 0) + 1
            return
        for a in step.get("args", []):
            if isinstance(a, dict) and len(a) == 1 and "$node" in a:
                src = m._safe_resolve(H.res, a["$node"])
                if not isinstance(src, (dict, list)) or H.root not in self.objs:
                    # the position the value was to be taken from no longer holds a container at run time
                    self.counters["skipped_node_args"] = self.counters.get("skipped_node_args", 0) + 1
                    return
                self.counters["node_args"] = self.counters.get("node_args", 0) + 1
        if "k" in step and checked:
            # the operation was generated for a dict / a list: when the run-time content differs from what the
            # generator assumed (popitem, faults, rejected operations) and the position now holds the other kind,
            # the call is not the operation that was meant
            t_now = m._safe_resolve(H.res, H.path + list(step.get("path", [])))
            if isinstance(t_now, (dict, list)) and _kind(t_now) != step["k"]:
                self.counters["skipped_ops_on_other_kind"] = self.counters.get("skipped_ops_on_other_kind", 0) + 1
                return
        self.counters["ops"] += 1
        self.counters["mut" if mut else "reads"] += 1
        buffered_before = m.res_buffered(H.res)
        armed = self._arm()
        # --- SUT
        try:
            node = self._navigate(h, step.get("path", []))
            nav_exc = None
        except Exception as e:  # noqa: BLE001
            node, nav_exc = None, e
        fault_fired = None
        if nav_exc is not None:
            sut = Outcome("exc", exc=nav_exc)
        else:
            args = [model.decode(a, self_obj=node, aux=self._aux_sut, node=lambda p_: self._navigate(H.root, p_))
                    for a in step.get("args", [])]
            if "fault" in step and not armed:
                from . import inject

                f = step["fault"]
                if "eio" in f:
                    icpt = inject.FaultAtEvent(f["eio"])
                    sut = inject.with_interceptor(self.scratch, icpt, lambda: model.run_sut(node, op, args))
                    fault_fired = icpt.fired
                else:
                    with inject.FileSizeLimit(f["efbig"]):
                        sut = model.run_sut(node, op, args)
                    fault_fired = ("efbig", f["efbig"], None)
            else:
                sut = model.run_sut(node, op, args)
        events = fsmon.disarm() if armed else []
        self.counters["fs_events"] += len(events)
        if sut.kind == "exc":
            self.counters["excs"] += 1
        if not checked:
            # A handle the model no longer tracks: used, but nothing is asserted and it is
            # never given a mutator by the generators.
            return
        # --- an injected I/O fault made the operation raise: the property (C01) only speaks about
        # calls that return, so nothing is asserted here; the model is brought back in line with
        # what the resource now holds (whole old / whole new content - crash atomicity is C08).
        if fault_fired is not None and sut.kind == "exc" and isinstance(sut.exc, OSError):
            self.counters["faults_raised"] = self.counters.get("faults_raised", 0) + 1
            got = self.resources[H.res].probe()
            before = copy.deepcopy(m.truth[H.res])
            trial = copy.deepcopy(m)
            trial.apply_op(step, sut_outcome=None)
            after = trial.logical[H.res]
            # the failed call may already have re-targeted positions in memory through its own object (a child
            # shifted by insert, replaced by setitem ...): handles the completed call would have detached are no
            # longer asserted on, whatever the resource now holds
            for hid, th in trial.handles.items():
                if not th.attached and hid in m.handles:
                    m.handles[hid].attached = False
            if got == MISSING and before == MISSING:
                if len(m.roots_of(H.res)) > 1:
                    # no resource content, several objects: each object keeps its own memory, which the
                    # single-content model cannot represent
                    raise StopCase()
                # a missing resource is read as "keep what is in memory": the failed operation's
                # in-memory effect - if it got that far (the fault may have hit the load) - stays and is
                # persisted by the next successful save. With no resource content the memory is the only
                # content there is, so it is peeked at to learn which of the two it is.
                mem = model.to_plain(self.objs[H.root])
                if model.compare(mem, after) == "ok":
                    m.logical[H.res] = copy.deepcopy(after)
                    m.may_create[H.res] = True
                elif model.compare(mem, m.logical[H.res]) != "ok":
                    raise StopCase()
                m._recheck_kinds(H.res)
                return
            if got != MISSING and before != MISSING and model.compare(got, before) == "ok":
                m.logical[H.res] = copy.deepcopy(before)
                m._recheck_kinds(H.res)
                return
            if got != MISSING and model.compare(got, after) == "ok":
                m.apply_op(step, sut_outcome=None)
                m.truth[H.res] = copy.deepcopy(m.logical[H.res])
                return
            # torn / partial content (legitimate in the non-atomic write mode): this case cannot go on
            raise StopCase()
        if fault_fired is not None:
            self.counters["faults_fired"] = self.counters.get("faults_fired", 0) + 1
        # --- model
        mod, target = m.apply_op(step, sut_outcome=sut)
        not_a_collection = not isinstance(target, (dict, list))
        if not_a_collection:
            # the path leads to a scalar (or nowhere) on both sides - e.g. after popitem chose
            # another pair than the generator assumed: this is not a collection operation
            pass
        elif self.oracle["results"]:
            verdict, detail = model.judge(op, sut, mod, iter_unordered=isinstance(target, dict))
            if op == "popitem" and mod.kind == "ret" and isinstance(mod.value, tuple) \
                    and mod.value and mod.value[0] in ("<not-present>", "<bad-popitem-result>"):
                verdict, detail = "mismatch", f"popitem returned {sut.brief()} which is not a present pair"
            if verdict == "mismatch":
                self.viol("result", f"{op}{step.get('args', [])} via h{h}{step.get('path', [])}: {detail}",
                          op=op, target=_kind(target), depth=len(H.path) + len(step.get("path", [])),
                          via="child" if not H.is_root else "root")
            if verdict == "strict_only":
                self.strict_only.append({"step": self.step_index, "where": "result", "op": op,
                                         "detail": detail})
            if OPS_SELF(op) and sut.kind == "ret" and sut.value is not node:
                self.viol("result", f"{op} did not return the collection itself", op=op)
        # --- deferred writes (C05 ii)
        if armed and buffered_before and m.res_buffered(H.res):
            self.counters["buffered_steps"] += 1
            w = fsmon.writes_to(events, self.resources[H.res].path)
            if w and not self.case.get("small_capacity"):
                self.viol("early_write", f"{op} wrote the file while buffered: {w[:3]}", op=op)
        # --- resource
        if self.oracle["resource_each_step"]:
            for r in range(len(self.resources)):
                self._check_res_now(r, f"after {op}", op)

    def _do_rejected(self, step):
        """A multi-item mutator carrying one item the collection must reject.

        How much of it is applied before the rejection is not the model's business (C11 judges the
        rejection itself). What is asserted is that the outcome is *stable*: the content a read through
        the API shows right afterwards becomes the model content - later reads must agree with it, an
        unbuffered resource must hold it at once, a buffered one after the outermost exit."""
        m = self.model
        h = step["h"]
        H = m.handles.get(h)
        if H is None or h not in self.objs or not H.attached or H.root not in self.objs:
            return
        op = step["rejected"]
        try:
            node = self._navigate(h, step.get("path", []))
        except Exception:  # noqa: BLE001
            return
        target = m._safe_resolve(H.res, H.path + list(step.get("path", [])))
        if not isinstance(target, (dict, list)):
            return
        args = [model.decode(a, self_obj=node, aux=self._aux_sut) for a in step.get("args", [])]
        buffered_before = m.res_buffered(H.res)
        armed = self._arm()
        sut = model.run_sut(node, op, args)
        events = fsmon.disarm() if armed else []
        self.counters["rejected_ops"] = self.counters.get("rejected_ops", 0) + 1
        if sut.kind != "exc":
            raise StopCase()  # accepted after all: C11's business, the model cannot follow
        if armed and buffered_before and m.res_buffered(H.res) and not self.case.get("small_capacity"):
            w = fsmon.writes_to(events, self.resources[H.res].path)
            if w:
                self.viol("early_write", f"rejected {op} wrote the file while buffered: {w[:3]}", op=op)
        # children below the target may have been replaced by the part that was applied
        m._detach_same_parent(H.root, H.path + list(step.get("path", [])), None, True)
        seen = model.run_sut(self.objs[H.root], "call", [])
        if seen.kind != "ret":
            self.viol("result", f"read after a rejected {op} raised {seen.brief()}", op=op)
            return
        obs = model.to_plain(seen.value)
        if model.compare(obs, m.logical[H.res]) == "ok":
            self.counters["rejected_reverted"] = self.counters.get("rejected_reverted", 0) + 1
            if m.is_buffered_root(H.root) and m.dirty[H.res] == "clean":
                m.dirty[H.res] = "maybe"
            elif not m.is_buffered_root(H.root) and m.truth[H.res] == MISSING:
                m.may_create[H.res] = True
        else:
            self.counters["rejected_partly_applied"] = self.counters.get("rejected_partly_applied", 0) + 1
            m.logical[H.res] = copy.deepcopy(obs)
            m._recheck_kinds(H.res)
            if m.is_buffered_root(H.root):
                m.dirty[H.res] = "dirty"
            else:
                m.truth[H.res] = copy.deepcopy(obs)
                m.may_create[H.res] = False
        if self.oracle["resource_each_step"]:
            for r in range(len(self.resources)):
                self._check_res_now(r, f"after rejected {op}", op)

    def _check_res_now(self, r, where, op=None):
        m = self.model
        if m.res_buffered(r):
            if self.case.get("small_capacity"):
                return  # a forced flush may or may not have happened: nothing is promised
            # buffered: the file must still hold what it held (no write before the exit)
            self.check_resource(r, where + " (buffered: file must be unchanged)", op)
        else:
            self.check_resource(r, where, op)

    def _do_enter(self, step):
        if step["enter"] == "obj":
            cm = self.objs[step["h"]].buffered
        else:
            cap = step.get("cap")
            cm = self.cls.buffer_backend(cap) if cap is not None else self.cls.buffer_backend()
        try:
            cm.__enter__()
        except Exception as e:  # noqa: BLE001
            self.viol("context", f"entering {step['enter']} context raised {type(e).__name__}: {e}",
                      op="enter_" + step["enter"])
        self.ctx_stack.append(cm)
        self.model.enter(step)
        if step.get("flushes"):
            # a backend-wide context entered with capacity 0 while data is buffered: the smaller capacity forces a
            # flush right away ("unless the buffer capacity forces a flush"). Whatever the strategy wrote is taken
            # over: every buffered resource holds either its old content or all buffered changes.
            m = self.model
            for r in range(len(self.resources)):
                if not m.res_buffered(r):
                    continue
                got = self.resources[r].probe()
                if got != MISSING and model.compare(got, m.logical[r]) in ("ok", "strict_only"):
                    m.truth[r] = copy.deepcopy(m.logical[r])
                    m.dirty[r] = "clean"
                    m.may_create[r] = False
                elif not ((got == MISSING and m.truth[r] == MISSING) or
                          (got != MISSING and m.truth[r] != MISSING and model.compare(got, m.truth[r]) != "mismatch")):
                    self.viol("flush", f"after entering buffer_backend(0) resource r{r} holds {got!r}: neither the old "
                              f"content {m.truth[r]!r} nor the buffered one {m.logical[r]!r}", op="enter_backend")

    def _do_exit(self, step):
        m = self.model
        which = step.get("h") if step.get("exit") == "obj" else None
        if which is None:
            idx = len(self.ctx_stack) - 1
        else:
            idx = max(i for i, e in enumerate(m.stack) if e == ("obj", which))
        cm = self.ctx_stack.pop(idx)
        kind = m.stack[idx][0]
        try:
            cm.__exit__(None, None, None)
        except Exception as e:  # noqa: BLE001
            m.exit(which)
            self.viol("context", f"leaving {kind} context raised {type(e).__name__}: {e}",
                      op="exit_" + kind, exc=type(e).__name__)
        flushed = m.exit(which)
        for res in flushed:
            acc = m.note_flushed(res)
            if acc is None:
                continue
            got = self.resources[res].probe()
            self.counters["probes"] += 1
            best = "mismatch"
            for want in acc:
                if got == MISSING or want == MISSING:
                    v = "ok" if got == want else "mismatch"
                else:
                    v = model.compare(got, want)
                if v == "ok":
                    best = "ok"
                    m.truth[res] = copy.deepcopy(want)
                    break
                if v == "strict_only":
                    best = "strict_only"
                    m.truth[res] = copy.deepcopy(want)
            if best == "mismatch":
                self.viol("flush", f"after leaving the {kind} context resource r{res} holds {got!r}, "
                          f"expected {' or '.join(repr(a) for a in acc)}", op="exit_" + kind,
                          dirty=m.dirty[res])
            if best == "strict_only":
                self.strict_only.append({"step": self.step_index, "where": "flush", "op": "exit_" + kind})
            m.may_create[res] = False
        if self.oracle["resource_each_step"]:
            for r in range(len(self.resources)):
                if r not in flushed:
                    self._check_res_now(r, f"after exit_{kind}", "exit_" + kind)

    def finish(self):
        if not self.oracle["final_call"]:
            return
        m = self.model
        for h in list(m.handles.values()):
            if not h.is_root or h.id not in self.objs:
                continue
            try:
                got = self.objs[h.id]()
            except Exception as e:  # noqa: BLE001
                self.viol("result", f"final call through h{h.id} raised {type(e).__name__}: {e}", op="call")
            v = model.compare(got, m.logical[h.res])
            if v == "mismatch":
                self.viol("result", f"final call through h{h.id} gives {got!r}, model {m.logical[h.res]!r}",
                          op="call", final=True)
            if v == "strict_only":
                self.strict_only.append({"step": self.step_index, "where": "final_call", "op": "call"})


def OPS_SELF(op):
    return model.OPS[op][3] == "self"


def make_scratch():
    import tempfile

    base = os.environ.get("VERIF_SCRATCH") or ("/dev/shm" if os.access("/dev/shm", os.W_OK) else tempfile.gettempdir())
    return tempfile.mkdtemp(prefix="vf_", dir=base)
