"""Generators of small multi-threaded programs for the E4 checks (C09, C13, C14, C10)."""
import copy

CLEAN_DICT = ["setitem", "delitem", "pop", "popitem", "update", "setdefault"]
CLEAN_LIST = ["setitem", "delitem", "insert", "append", "extend", "iadd", "remove"]
KNOWN_DICT = ["clear", "reset"]
KNOWN_LIST = ["clear", "reset", "pop", "reverse"]

DICT_INIT = {"a": 0, "b": "x", "c": {"p": 1, "q": [1, 2]}, "d": {"r": 5}, "l": [{"u": 1}, 7, [3]]}
LIST_INIT = [10, "x", {"p": 1, "q": [1, 2]}, [5, 6], {"r": 5}]


def uval(ti, si, r):
    """A value unique to (thread, op index) - reads identify the write they observed."""
    base = f"t{ti}o{si}"
    x = r.random()
    if x < 0.5:
        return base
    if x < 0.7:
        return 1000 + 100 * ti + si
    if x < 0.85:
        return {"v": base}
    return [base, 1000 + 100 * ti + si]


def dict_op(r, op, ti, si, target, avoid=(), shared_keys=True):
    """args for a dict mutator on plain ``target``; never names a key in ``avoid``."""
    keys = [k for k in target if k not in avoid]
    newk = f"n{ti}{si}"
    hot = "hot"  # a key several threads fight over
    def pick_new():
        return hot if shared_keys and r.random() < 0.35 else newk
    if op == "setitem":
        k = r.choice(keys) if keys and r.random() < 0.4 else pick_new()
        return [k, uval(ti, si, r)]
    if op == "delitem":
        return [r.choice(keys) if keys and r.random() < 0.8 else pick_new()]
    if op == "pop":
        return [r.choice(keys) if keys and r.random() < 0.7 else pick_new()]
    if op == "popitem":
        return []
    if op == "update":
        k = r.choice(keys) if keys and r.random() < 0.4 else pick_new()
        form = r.choice(["mapping", "kwargs", "pairs"])
        if form == "mapping":
            return ["mapping", {k: uval(ti, si, r), newk + "u": uval(ti, si, r)}, None]
        if form == "pairs":
            return ["pairs", [[k, uval(ti, si, r)]], None]
        return ["kwargs", None, {newk: uval(ti, si, r)}]
    if op == "setdefault":
        return [r.choice(keys) if keys and r.random() < 0.4 else pick_new(), uval(ti, si, r)]
    if op == "clear":
        return []
    if op == "reset":
        keep = {k: copy.deepcopy(target[k]) for k in keys if r.random() < 0.4}
        keep[newk + "r"] = uval(ti, si, r)
        return [keep]
    raise AssertionError(op)


def list_op(r, op, ti, si, target, shifting=True):
    n = len(target)
    if op == "setitem":
        idx = [i for i in range(n) if not isinstance(target[i], (dict, list))]
        return [r.choice(idx) if idx else 0, uval(ti, si, r)]
    if op == "delitem":
        return [r.randrange(n) if n and r.random() < 0.8 else n + 3]
    if op == "insert":
        return [r.randrange(n + 1), uval(ti, si, r)]
    if op == "append":
        return [uval(ti, si, r)]
    if op in ("extend", "iadd"):
        return [[uval(ti, si, r), uval(ti, si + 50, r)]]
    if op == "remove":
        scal = [v for v in target if not isinstance(v, (dict, list))]
        return [r.choice(scal) if scal and r.random() < 0.8 else "absent"]
    if op == "pop":
        return [] if r.random() < 0.6 or not n else [r.randrange(n)]
    if op in ("reverse", "clear"):
        return []
    if op == "reset":
        return [[uval(ti, si, r)] + copy.deepcopy(target[: r.choice([0, 1, 2])])]
    raise AssertionError(op)


def writer_program(r, kind, stratum, nthreads=None, max_ops=2, topo=None):
    """A small program of concurrent writers on one resource. Returns (prog_parts, meta)."""
    init = copy.deepcopy(DICT_INIT if kind == "dict" else LIST_INIT)
    topo_ = r.choice(["same", "same", "two_obj", "two_obj", "root_child", "two_children", "same_child_twice",
                      "two_obj_children", "own_obj_in_thread"])
    topo = topo or topo_
    nthreads = nthreads or r.choice([2, 2, 2, 3])
    roots, pre = [[0, 0]], []
    # handle table: hid -> (plain target getter path, kind, role)
    if kind == "dict":
        child_paths = [["c"], ["d"], ["l"], ["c", "q"], ["l", 0]]
    else:
        child_paths = [[2], [3], [4], [2, "q"]]

    def tgt(path):
        t = init
        for k in path:
            t = t[k]
        return t

    handles = []  # (hid, path)
    if topo == "same":
        handles = [(0, [])] * nthreads
    elif topo == "two_obj":
        roots = [[i, 0] for i in range(nthreads)]
        handles = [(i, []) for i in range(nthreads)]
    elif topo == "own_obj_in_thread":
        # every thread constructs its own object on the (not yet opened) file before it writes
        roots = []
        handles = [(i, []) for i in range(nthreads)]
    elif topo == "root_child":
        p = r.choice(child_paths)
        pre = [{"retain": 10, "h": 0, "path": p}]
        handles = [(0, [])] + [(10, p)] * (nthreads - 1)
    elif topo == "two_children":
        ps = r.sample(child_paths[:3], 2)
        pre = [{"retain": 10, "h": 0, "path": ps[0]}, {"retain": 11, "h": 0, "path": ps[1]}]
        handles = [(10, ps[0]), (11, ps[1])] + [(0, [])] * (nthreads - 2)
    elif topo == "same_child_twice":
        p = r.choice(child_paths)
        pre = [{"retain": 10, "h": 0, "path": p}, {"retain": 11, "h": 0, "path": p}]
        handles = [(10, p), (11, p)] + [(10, p)] * (nthreads - 2)
    else:  # two_obj_children
        roots = [[0, 0], [1, 0]]
        p = r.choice(child_paths)
        pre = [{"retain": 10, "h": 0, "path": p}, {"retain": 11, "h": 1, "path": p}]
        handles = [(10, p), (11, p)] + [(0, [])] * (nthreads - 2)
    child_top = {h[1][0] for h in handles if h[1]}
    threads = []
    ops_used = []
    for ti in range(nthreads):
        hid, path = handles[ti]
        t = tgt(path)
        nops = r.choice([1, 1, 2]) if max_ops >= 2 else 1
        steps = []
        for si in range(nops):
            if isinstance(t, dict):
                pool = CLEAN_DICT if stratum == "clean" else CLEAN_DICT + KNOWN_DICT * 3
                if not path and child_top:
                    # the root must not re-target or remove the positions children came from
                    pool = [o for o in pool if o not in ("popitem", "clear", "reset")]
                op = r.choice(pool)
                args = dict_op(r, op, ti, si, t, avoid=child_top if not path else ())
            else:
                pool = CLEAN_LIST if stratum == "clean" else CLEAN_LIST + KNOWN_LIST * 3
                if not path and child_top:
                    pool = [o for o in pool if o in ("append", "extend", "iadd")]
                elif any(len(h[1]) > len(path) and h[1][: len(path)] == path for h in handles if h[1] != path):
                    pool = [o for o in pool if o in ("append", "extend", "iadd")]
                op = r.choice(pool)
                args = list_op(r, op, ti, si, t)
            steps.append({"op": op, "h": hid, "path": [], "args": args})
            ops_used.append(op)
        if topo == "own_obj_in_thread":
            steps.insert(0, {"new": hid, "res": 0})
        threads.append(steps)
    if stratum != "clean" and not any(o in KNOWN_DICT + KNOWN_LIST for o in ops_used):
        # make sure the stratum contains what it is named after
        ti = r.randrange(nthreads)
        hid, path = handles[ti]
        t = tgt(path)
        first = 1 if topo == "own_obj_in_thread" else 0
        if not (not path and child_top):
            if isinstance(t, dict):
                op = r.choice(KNOWN_DICT)
                threads[ti][first] = {"op": op, "h": hid, "path": [], "args": dict_op(r, op, ti, 0, t)}
            else:
                op = r.choice(KNOWN_LIST)
                threads[ti][first] = {"op": op, "h": hid, "path": [], "args": list_op(r, op, ti, 0, t)}
    parts = {"init": init, "roots": roots, "pre": pre, "threads": threads}
    if roots and r.random() < 0.2:
        parts["ctor_mt_off"] = True  # objects constructed while multithreading support was switched off
    return parts, {"topology": topo}
