"""In-process stand-ins for the Redis / MongoDB / Zarr client surfaces the library calls.

redis, pymongo(bson), zarr and numcodecs are not installed and cannot be fetched. The
fakes are opaque, faithful stores: what is written is what is read back, encoded the way
the real client would encode it (bytes for Redis, a BSON-like deep copy for MongoDB, the
object codec for Zarr). They do not emulate server-side limits. Every fake counts its
write calls so that "reading never writes" (C17) is observable.
"""
import copy
import json
import sys
import types
from collections.abc import Mapping


# --------------------------------------------------------------------------- stub modules
class InvalidDocument(Exception):
    """Stand-in for bson.errors.InvalidDocument."""


class FakeJSONCodec:
    """Stand-in for numcodecs.JSON: encodes a python object to bytes and back."""

    codec_id = "json2"

    def encode(self, obj):
        return json.dumps(obj).encode()

    def decode(self, blob):
        return json.loads(blob)


def install_stub_modules():
    if "bson" not in sys.modules:
        bson = types.ModuleType("bson")
        errors = types.ModuleType("bson.errors")
        errors.InvalidDocument = InvalidDocument
        bson.errors = errors
        bson.__verif_fake__ = True
        sys.modules["bson"] = bson
        sys.modules["bson.errors"] = errors
    if "numcodecs" not in sys.modules:
        numcodecs = types.ModuleType("numcodecs")
        numcodecs.JSON = FakeJSONCodec
        numcodecs.__verif_fake__ = True
        sys.modules["numcodecs"] = numcodecs


# --------------------------------------------------------------------------- Redis
class FakeRedis:
    def __init__(self):
        self.kv = {}
        self.writes = 0
        self.reads = 0

    def get(self, key):
        self.reads += 1
        return self.kv.get(key)

    def set(self, key, value):
        self.writes += 1
        if isinstance(value, str):
            value = value.encode()
        if not isinstance(value, (bytes, bytearray)):
            raise TypeError("FakeRedis stores bytes")
        self.kv[key] = bytes(value)
        return True

    def delete(self, key):
        self.writes += 1
        self.kv.pop(key, None)


# --------------------------------------------------------------------------- MongoDB
def _bsonify(x):
    """Deep copy the way a BSON round trip would (tuples -> lists, Mapping -> dict)."""
    if x is None or isinstance(x, (bool, int, float, str)):
        return x
    if isinstance(x, Mapping):
        out = {}
        for k, v in x.items():
            if not isinstance(k, str):
                raise InvalidDocument(
                    f"documents must have only string keys, key was {k!r}"
                )
            out[k] = _bsonify(v)
        return out
    if isinstance(x, (list, tuple)):
        return [_bsonify(v) for v in x]
    raise InvalidDocument(f"cannot encode object: {x!r}, of type: {type(x)}")


class FakeMongoCollection:
    """find_one / replace_one on documents identified by a uid mapping."""

    def __init__(self):
        self.docs = []
        self.writes = 0
        self.reads = 0

    def _find(self, flt):
        for i, d in enumerate(self.docs):
            if all(k in d and d[k] == v for k, v in flt.items()):
                return i
        return None

    def find_one(self, flt):
        self.reads += 1
        i = self._find(flt)
        return None if i is None else copy.deepcopy(self.docs[i])

    def replace_one(self, flt, doc, upsert=False):
        self.writes += 1
        new = _bsonify(doc)
        i = self._find(flt)
        if i is None:
            if upsert:
                self.docs.append(new)
        else:
            self.docs[i] = new


# --------------------------------------------------------------------------- Zarr
class FakeZarrDataset:
    def __init__(self, group, name, codec):
        self._group = group
        self._name = name
        self._codec = codec
        self._blob = None  # encoded bytes of element 0

    def __setitem__(self, idx, value):
        if idx != 0:
            raise IndexError(idx)
        self._group.writes += 1
        self._blob = self._codec.encode(value)

    def __getitem__(self, idx):
        if idx != 0:
            raise IndexError(idx)
        self._group.reads += 1
        if self._blob is None:
            # A freshly created object array holds the fill value.
            return None
        return self._codec.decode(self._blob)


class FakeZarrGroup:
    def __init__(self):
        self.datasets = {}
        self.writes = 0
        self.reads = 0

    def __getitem__(self, name):
        self.reads += 1
        return self.datasets[name]  # KeyError when missing, like zarr

    def require_dataset(self, name, overwrite=False, shape=None, dtype=None,
                        object_codec=None, **kw):
        self.writes += 1
        if overwrite or name not in self.datasets:
            codec = object_codec if object_codec is not None else FakeJSONCodec()
            self.datasets[name] = FakeZarrDataset(self, name, codec)
        return self.datasets[name]
