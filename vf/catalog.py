"""The 18 concrete collection classes, their families, constructors and resource probes."""
import json
import os
from dataclasses import dataclass

from . import fakes

MISSING = "<MISSING>"
UNPARSABLE = "<UNPARSABLE>"


@dataclass(frozen=True)
class ClassInfo:
    name: str
    module: str
    backend: str  # json | redis | mongo | zarr
    family: str
    kind: str  # dict | list
    attr: bool
    strategy: str  # "" | serialized | memory
    dict_cls: str
    list_cls: str

    @property
    def buffered(self):
        return bool(self.strategy)

    @property
    def forbids_nonjson(self):
        # Zarr classes declare only require_string_key; their codec is pluggable.
        return self.backend != "zarr"

    @property
    def forbids_dot(self):
        return self.attr

    def cls(self):
        import importlib

        return getattr(importlib.import_module(self.module), self.name)

    def family_classes(self):
        import importlib

        m = importlib.import_module(self.module)
        return getattr(m, self.dict_cls), getattr(m, self.list_cls)


def _json(prefix, family, attr, strategy):
    mod = "synced_collections.backends.collection_json"
    a = "Attr" if attr else ""
    d, l = f"{prefix}JSON{a}Dict", f"{prefix}JSON{a}List"
    return [
        ClassInfo(d, mod, "json", family, "dict", attr, strategy, d, l),
        ClassInfo(l, mod, "json", family, "list", attr, strategy, d, l),
    ]


CLASSES = (
    _json("", "json", False, "")
    + _json("Buffered", "json.buffered", False, "serialized")
    + _json("MemoryBuffered", "json.memory_buffered", False, "memory")
    + _json("", "json.attr", True, "")
    + _json("Buffered", "json.buffered_attr", True, "serialized")
    + _json("MemoryBuffered", "json.memory_buffered_attr", True, "memory")
    + [
        ClassInfo("RedisDict", "synced_collections.backends.collection_redis", "redis",
                  "redis", "dict", False, "", "RedisDict", "RedisList"),
        ClassInfo("RedisList", "synced_collections.backends.collection_redis", "redis",
                  "redis", "list", False, "", "RedisDict", "RedisList"),
        ClassInfo("MongoDBDict", "synced_collections.backends.collection_mongodb", "mongo",
                  "mongo", "dict", False, "", "MongoDBDict", "MongoDBList"),
        ClassInfo("MongoDBList", "synced_collections.backends.collection_mongodb", "mongo",
                  "mongo", "list", False, "", "MongoDBDict", "MongoDBList"),
        ClassInfo("ZarrDict", "synced_collections.backends.collection_zarr", "zarr",
                  "zarr", "dict", False, "", "ZarrDict", "ZarrList"),
        ClassInfo("ZarrList", "synced_collections.backends.collection_zarr", "zarr",
                  "zarr", "list", False, "", "ZarrDict", "ZarrList"),
    ]
)
BY_NAME = {c.name: c for c in CLASSES}
JSON_CLASSES = [c for c in CLASSES if c.backend == "json"]
BUFFERED_CLASSES = [c for c in CLASSES if c.buffered]
ATTR_DICT_CLASSES = [c for c in CLASSES if c.attr and c.kind == "dict"]


def info(name):
    return BY_NAME[name]


# --------------------------------------------------------------------------- resources
class Resource:
    """One backing resource (file / redis key / mongo document / zarr array)."""

    def __init__(self, info, scratch, name="r0", store=None, symlink=False):
        self.info = info
        self.name = name
        self.scratch = scratch
        self.symlink = bool(symlink) and info.backend == "json"
        b = info.backend
        if b == "json":
            self.path = os.path.join(scratch, name + ".json")
            self.store = None
            if self.symlink:
                # the file name the collections are bound to is a symbolic link to another file in the directory;
                # everything (library, probes, outside writer) goes through the name
                self.target = os.path.join(scratch, name + ".target")
                os.symlink(self.target, self.path)
        elif b == "redis":
            self.store = store if store is not None else fakes.FakeRedis()
            self.key = name
        elif b == "mongo":
            self.store = store if store is not None else fakes.FakeMongoCollection()
            self.uid = {"verif_id": name}
        elif b == "zarr":
            self.store = store if store is not None else fakes.FakeZarrGroup()
        else:
            raise ValueError(b)

    # -- handles -----------------------------------------------------------------
    def new_handle(self, write_concern=False, data=None, cls=None):
        cls = cls if cls is not None else self.info.cls()
        b = self.info.backend
        kw = {}
        if data is not None:
            kw["data"] = data
        if b == "json":
            return cls(filename=self.path, write_concern=write_concern, **kw)
        if b == "redis":
            return cls(client=self.store, key=self.key, **kw)
        if b == "mongo":
            return cls(collection=self.store, uid=dict(self.uid), **kw)
        return cls(group=self.store, name=self.name, **kw)

    # -- independent probe (never goes through the library) --------------------------
    def probe(self):
        b = self.info.backend
        try:
            if b == "json":
                try:
                    with open(self.path, "rb") as f:
                        blob = f.read()
                except FileNotFoundError:
                    return MISSING
                return json.loads(blob)
            if b == "redis":
                blob = self.store.kv.get(self.key)
                return MISSING if blob is None else json.loads(blob)
            if b == "mongo":
                i = self.store._find(self.uid)
                if i is None:
                    return MISSING
                import copy

                return copy.deepcopy(self.store.docs[i]["data"])
            ds = self.store.datasets.get(self.name)
            if ds is None or ds._blob is None:
                return MISSING
            return json.loads(ds._blob)
        except ValueError:
            return UNPARSABLE

    def raw(self):
        """Raw bytes / document of the resource (for byte-identity checks)."""
        b = self.info.backend
        if b == "json":
            try:
                with open(self.path, "rb") as f:
                    return f.read()
            except FileNotFoundError:
                return None
        if b == "redis":
            return self.store.kv.get(self.key)
        if b == "mongo":
            i = self.store._find(self.uid)
            return None if i is None else json.dumps(self.store.docs[i], sort_keys=True)
        ds = self.store.datasets.get(self.name)
        return None if ds is None else ds._blob

    def exists(self):
        return self.raw() is not None

    def write_count(self):
        return None if self.store is None else self.store.writes

    # -- outside writer -----------------------------------------------------------------
    def outside_write(self, value, bump=True, raw=None, replace=False):
        """Write ``value`` to the resource the way another process would.

        bump=True : for files, guarantee that (st_size, st_mtime_ns) differs from before
                    (size padded with trailing whitespace if needed, mtime pushed forward).
        bump=False: plain write; size/mtime change only as they naturally do.
        raw       : bytes to write verbatim instead of json.dumps(value) (corrupt content).
        """
        b = self.info.backend
        if b == "json":
            blob = raw if raw is not None else json.dumps(value).encode()
            old = None
            try:
                old = os.stat(self.path)
            except FileNotFoundError:
                pass
            if bump and old is not None and len(blob) == old.st_size and raw is None:
                blob += b" "
            if replace:
                # the way careful writers publish a new version: temporary file, then rename onto the name
                # (a symbolic link at that name is replaced by the regular file)
                tmp = self.path + ".outside.tmp"
                with open(tmp, "wb") as f:
                    f.write(blob)
                os.replace(tmp, self.path)
            else:
                with open(self.path, "wb") as f:
                    f.write(blob)
            if bump and old is not None:
                new = os.stat(self.path)
                if new.st_mtime_ns <= old.st_mtime_ns:
                    ns = old.st_mtime_ns + 1_000_000
                    os.utime(self.path, ns=(ns, ns))
                elif new.st_mtime_ns == old.st_mtime_ns:
                    pass
            return
        if b == "redis":
            self.store.kv[self.key] = raw if raw is not None else json.dumps(value).encode()
        elif b == "mongo":
            i = self.store._find(self.uid)
            doc = {**self.uid, "data": fakes._bsonify(value)}
            if i is None:
                self.store.docs.append(doc)
            else:
                self.store.docs[i] = doc
        else:
            ds = self.store.datasets.get(self.name)
            if ds is None:
                ds = fakes.FakeZarrDataset(self.store, self.name, fakes.FakeJSONCodec())
                self.store.datasets[self.name] = ds
            ds._blob = raw if raw is not None else json.dumps(value).encode()

    def remove(self):
        b = self.info.backend
        if b == "json":
            # a symbolic link stays in place and dangles: the name then refers to a missing file
            try:
                os.remove(self.target if self.symlink and os.path.islink(self.path) else self.path)
            except FileNotFoundError:
                pass
        elif b == "redis":
            self.store.kv.pop(self.key, None)
        elif b == "mongo":
            i = self.store._find(self.uid)
            if i is not None:
                del self.store.docs[i]
        else:
            self.store.datasets.pop(self.name, None)


# --------------------------------------------------------------------------- class state
def reset_class_state(info_or_cls):
    """Hard reset of class-wide buffer state (harness isolation only, never a verdict)."""
    cls = info_or_cls.cls() if isinstance(info_or_cls, ClassInfo) else info_or_cls
    if not hasattr(cls, "_buffer_context"):
        return
    # Every concrete class owns its own buffer state (set in __init_subclass__).
    c = cls
    if "_buffer" in c.__dict__:
        c._buffer.clear()
        c._CURRENT_BUFFER_SIZE = 0
        c._buffered_collections.clear()  # in place: keep whatever mapping type the library uses
        ctx = c.__dict__.get("_buffer_context")
        if ctx is not None:
            ctx._count = 0
            if hasattr(ctx, "_original_buffer_capacitys"):
                ctx._original_buffer_capacitys.clear()
                ctx._buffer_capacity = None
        if "_BUFFER_CAPACITY" in c.__dict__ and c.__name__ in BY_NAME:
            del c._BUFFER_CAPACITY  # fall back to the strategy's default


def buffer_owner(cls):
    """The class in cls.__mro__ that owns the class-wide buffer state (``_buffer``)."""
    for k in cls.__mro__:
        if "_buffer" in k.__dict__:
            return k
    return None


def quiescent(cls):
    """Public-API view: not buffered, empty buffer."""
    if not hasattr(cls, "backend_is_buffered"):
        return True
    if cls.backend_is_buffered():
        return False
    if hasattr(cls, "get_current_buffer_size") and cls.get_current_buffer_size() != 0:
        return False
    return True
