#!/usr/bin/env python3
"""Import, confirm and evaluate independently written property-breaking changes.

  tools/seeded.py import Cxx N          copy /tmp/wt_Cxx/_out/{changeN.diff,demoN.py,metaN.json} to seeded/Cxx_N/
  tools/seeded.py eval DIR [CHECK..]    confirm (demo passes on clean copy, fails with the patch, suite passes
                                        with the patch) and run the checks (default: the property's own check)
                                        against the patched scratch copy; results are written into DIR/meta.json
Nothing is ever applied to /repo: everything runs on a scratch copy outside /repo and /verif.
"""
import json
import os
import shutil
import subprocess
import sys
import tempfile
import time

VERIF = os.path.dirname(os.path.dirname(os.path.abspath(__file__)))
PY = "/venv/bin/python"


def sh(cmd, cwd=None, env=None, timeout=3600):
    p = subprocess.run(cmd, cwd=cwd, env=env, capture_output=True, text=True, timeout=timeout)
    return p.returncode, p.stdout, p.stderr


def do_import(pid, n, prefix="wt", offset=0):
    src = f"/tmp/{prefix}_{pid}/_out"
    dst = os.path.join(VERIF, "seeded", f"{pid}_{int(n) + offset}")
    os.makedirs(dst, exist_ok=True)
    shutil.copy(f"{src}/change{n}.diff", f"{dst}/patch.diff")
    shutil.copy(f"{src}/demo{n}.py", f"{dst}/demo.py")
    meta = json.load(open(f"{src}/meta{n}.json"))
    meta["origin"] = "written by an independent sub-agent that saw only the property text and a scratch worktree"
    json.dump(meta, open(f"{dst}/meta.json", "w"), indent=1)
    print("imported", dst)


def do_eval(d, checks, tier="quick", skip_tests=False):
    d = os.path.abspath(d)
    meta = json.load(open(os.path.join(d, "meta.json")))
    checks = checks or [meta["property"]]
    base = "/dev/shm" if os.access("/dev/shm", os.W_OK) else tempfile.gettempdir()
    scratch = tempfile.mkdtemp(prefix="seeded_", dir=base)
    try:
        repo = os.path.join(scratch, "repo")
        shutil.copytree("/repo", repo, ignore=shutil.ignore_patterns(".git", "__pycache__", "*.egg-info", "doc"))
        os.makedirs(os.path.join(repo, "_out"), exist_ok=True)
        shutil.copy(os.path.join(d, "demo.py"), os.path.join(repo, "_out", "demo.py"))
        env = {**os.environ, "PYTHONPATH": repo, "PYTHONDONTWRITEBYTECODE": "1"}
        rc0, o0, e0 = sh([PY, "_out/demo.py", repo], cwd=repo, env=env, timeout=900)
        rc, o, e = sh(["patch", "-p1", "-s", "-i", os.path.join(d, "patch.diff")], cwd=repo)
        if rc != 0:
            print("PATCH FAILED", o, e)
            meta["confirmed"] = {"patch_applies": False}
            json.dump(meta, open(os.path.join(d, "meta.json"), "w"), indent=1)
            return
        rc1, o1, e1 = sh([PY, "_out/demo.py", repo], cwd=repo, env=env, timeout=900)
        conf = {"patch_applies": True, "demo_on_clean_copy_exit": rc0, "demo_with_patch_exit": rc1,
                "repo_head": sh(["git", "-C", "/repo", "rev-parse", "--short", "HEAD"])[1].strip()}
        if not skip_tests:
            rct, ot, et = sh([PY, "-m", "pytest", "-q", "-p", "no:cacheprovider", "--timeout=900", "-x"], cwd=repo, env=env)
            conf["suite_with_patch"] = (ot.strip().splitlines() or ["?"])[-1]
            conf["suite_passes"] = rct == 0
        old = meta.get("confirmed", {})
        if skip_tests and "suite_passes" in old:
            conf["suite_with_patch"], conf["suite_passes"] = old["suite_with_patch"], old["suite_passes"]
        meta["confirmed"] = conf
        caught = meta.get("caught_by", {})
        for c in checks:
            t0 = time.time()
            cenv = {**os.environ, "VERIF_REPO": repo, "VERIF_EVIDENCE_DIR": os.path.join(scratch, "ev"),
                    "VERIF_REPLAY_DIR": os.path.join(scratch, "rp")}
            rcc, oc, ec = sh([os.path.join(VERIF, "check"), c, "--tier", tier], env=cenv)
            first = next((l.strip() for l in oc.splitlines() if l.startswith("  ") and "unlisted" not in l), "")
            caught[f"{c}:{tier}"] = {"exit": rcc, "caught": rcc == 1, "wall_s": round(time.time() - t0, 1),
                                      "first_violation": first[:300]}
            print(f"  {os.path.basename(d)} {c}:{tier} exit={rcc} {first[:160]}")
        meta["caught_by"] = caught
        meta["what_was_run"] = ("tools/seeded.py eval: scratch copy of /repo (HEAD " + conf["repo_head"] + "), demo on the clean "
                                "copy, patch applied, demo again, pinned pytest suite, then ./check with VERIF_REPO=<copy>")
        json.dump(meta, open(os.path.join(d, "meta.json"), "w"), indent=1)
        print(f"{os.path.basename(d)}: demo clean={rc0} patched={rc1} suite={conf.get('suite_with_patch')}")
    finally:
        shutil.rmtree(scratch, ignore_errors=True)


if __name__ == "__main__":
    if sys.argv[1] == "import":
        do_import(sys.argv[2], sys.argv[3], *(sys.argv[4:5] or ["wt"]), offset=int(sys.argv[5]) if len(sys.argv) > 5 else 0)
    else:
        args = [a for a in sys.argv[3:] if not a.startswith("--")]
        tier = "thorough" if "--thorough" in sys.argv else "quick"
        do_eval(sys.argv[2], args, tier, skip_tests="--skip-tests" in sys.argv)
