#!/usr/bin/env python3
import json, sys
d = json.load(open(sys.argv[1])); v = d["violation"]; c = v["case"]
print(c["cls"], c.get("cfg"), c.get("stratum"), "res=", json.dumps(c["res"])[:300], "roots=", c["roots"])
for i, s in enumerate(c["steps"]):
    mark = ">>" if i == v.get("step") else "  "
    print(mark, i, json.dumps(s, ensure_ascii=False)[:220])
print(v["detail"][:1500])
