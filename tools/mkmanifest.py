#!/usr/bin/env python3
"""Regenerate MANIFEST.json from the table below (run from /verif)."""
import json
import os
import subprocess

HERE = os.path.dirname(os.path.dirname(os.path.abspath(__file__)))

FAKES = ("Redis/MongoDB/Zarr run against in-process fakes of the client calls the library makes "
         "(servers and client libraries are not installed); ")
BASE = ("Trusted base: CPython 3.12, the plain dict/list reference model in vf/model.py, the harness. "
        "Decides only the executions produced by the run; counts are in the evidence file.")

# id -> (level, technique, engine, text, note, design_ref)
CHECKS = {
    "C01": ("exploration", "runtime monitoring: reference-model differential + independent resource probe",
            "E1+E2",
            "Random programs of every mutator at every nesting depth on all 18 classes; after every call the "
            "resource is read without the library and compared type-strictly with a plain model. Exploration "
            "is the right level: the quantifier is over programs/inputs/configurations.",
            FAKES + BASE, "2/C01"),
    "C02": ("exploration", "runtime monitoring: history monitor with an outside writer, reference model",
            "E1+E2",
            "Histories interleaving all read APIs on several objects and retained child handles with "
            "transition-driven out-of-band rewrites; every read is compared with the truth (last content written).",
            FAKES + "handle attachment tracked conservatively from C02's wording. " + BASE, "2/C02"),
    "C03": ("exploration", "runtime monitoring: operation-by-operation differential against built-in dict/list",
            "E1",
            "Full MutableMapping/MutableSequence surface incl. mixins, slices, comparison operators, error paths; "
            "results, exception classes, content and resource compared with the built-in after every operation.",
            FAKES + BASE, "2/C03"),
    "C04": ("exploration", "runtime monitoring: multi-handle sequential histories against one shared model",
            "E1+E2",
            "2-4 objects on one resource (constructed, deep-copied or unpickled) plus retained children, adversarial alternation, "
            "every mutator incl. nested clear/reset, rejected multi-item mutators, I/O faults; shared plain model; resource "
            "probed after every step.",
            FAKES + BASE, "2/C04"),
}

CHECKS.update({
    "C05": ("exploration", "runtime monitoring: reference-model differential + audit-hook write monitor + context model",
            "E1+E2+E3",
            "Random programs under random well-nested obj.buffered / buffer_backend() contexts (depth <= 4) for the 8 "
            "buffered classes: every result vs the unbuffered model, no file write while buffered (audit hook), "
            "file == model at the outermost exit, no context entry/exit raises.",
            "small-capacity stratum does not judge early writes (a forced flush is legitimate). " + BASE, "2/C05"),
    "C06": ("exploration", "runtime monitoring: multi-object buffered histories against one shared model",
            "E1+E2",
            "k=2..4 objects on one file under one common buffered state (backend-wide, or per-object contexts "
            "entered/left together in random orders), random role assignment and first-touch order; reads inside "
            "vs shared model; file probed after the common exit must hold every write.",
            "objects in different buffered states on one file are not generated (documented unsupported). " + BASE,
            "2/C06"),
})

SCHED = ("Preemption points are executed line starts of library code (sys.monitoring LINE); stdlib calls are atomic "
         "blocks; locks are cooperative shims installed while the library is imported. ")
CHECKS.update({
    "C07": ("fault_enumeration", "runtime monitoring: outside-writer fault enumeration with expected-outcome table + audit-hook write monitor",
            "E2+E3",
            "All assignments of {modified, read-only, untouched} x {changed before / after first buffered access, never} to "
            "1-3 files (sampled for 4-5), 5 flush triggers, both strategies; error types and file sets, outside content intact, "
            "clean files written, read-only files never written, buffer/capacity/collections sane afterwards.",
            "after the first conflict error the program does not touch the conflicting file again. " + BASE, "2/C07"),
    "C08": ("fault_enumeration", "runtime monitoring: fork-based crash injection at every line, file-system event and write prefix",
            "E5+E2",
            "One forked child per crash point (library LINE k, before/after audited fs event j, RLIMIT_FSIZE byte prefix n) for "
            "every save scenario x atomic configuration; each file must be wholly old or wholly new and open in a fresh object; "
            "negative control must tear; unserialisable content leaves the file byte-identical.",
            "process-kill semantics (page cache survives), not power loss. " + BASE, "2/C08"),
    "C09": ("exploration", "runtime monitoring: deterministic line-level scheduler + linearizability checker over recorded histories",
            "E4",
            "Small writer programs on 7 handle topologies (incl. objects constructed inside the threads or while multithreading "
            "support was off); single-delay sweep per thread, boundary and constructor-delay families (+ multi-delay/random in thorough); "
            "every history checked against the plain model for linearizability, deadlock, leaked locks.",
            SCHED + BASE, "2/C09"),
    "C10": ("fault_enumeration", "runtime monitoring: fault injection (audit-hook EIO, EFBIG, corrupt content, rejected values) + logical lock-state inspection + scheduler deadlock search",
            "E4+E5",
            "Every op x class x buffering mode x fault point; lock shims inspected after the faulty thread finished, second thread "
            "must be able to run; delay sweeps over programs mixing collection/buffer/class locks; all orders of filename re-pointing.",
            SCHED + "faults only where load/save/validation can really fail. " + BASE, "2/C10"),
    "C11": ("exploration", "runtime monitoring: exhaustive invalid-input grid with memory/resource walkers; "
            "deterministic scheduler for rejection next to a writer thread",
            "E1+E2+E4",
            "Complete grid class x entry point x target position x forbidden item kind x position inside the argument; rejection "
            "class, in-memory tree walk and independent resource read after every attempt. Part threaded: every single-item entry "
            "point offered a forbidden item while another thread writes on the same tree, delay sweep of both threads.",
            FAKES + "Zarr: only non-str keys asserted. " + BASE, "2/C11"),
    "C12": ("exploration", "runtime monitoring: exhaustive-small + random round-trip differential through a fresh object",
            "E1+E2",
            "All JSON trees up to a node bound over boundary scalars plus random deep trees through every entry point of all 18 "
            "classes; fresh-object read and independent resource read compared type-strictly.",
            FAKES + "server-side limits not emulated. " + BASE, "2/C12"),
    "C13": ("exploration", "runtime monitoring: deterministic scheduler inside buffered contexts + per-file linearizability",
            "E4",
            "Buffered mutator programs inside buffer_backend(capacity) incl. flush-forcing capacities, 4 topologies (+ thread-local "
            "objects released before the exit), both "
            "strategies; delay sweeps; per-file serializability after exit, no buffer errors, size back to 0.",
            SCHED + BASE, "2/C13"),
    "C14": ("exploration", "runtime monitoring: deterministic scheduler with reader threads + linearizability incl. reads",
            "E4",
            "Reader next to writer(s) on T2/T1/T1c topologies, unbuffered and buffered; reads must be placeable between call and "
            "return. own_tree strata have zero tolerance; shared_tree strata carry known finding D13.",
            SCHED + BASE, "2/C14"),
    "C15": ("exploration", "runtime monitoring: accounting invariant at quiescent points (public API + hooked-state peek)",
            "E1",
            "Programs with nested contexts, capacity overrides and set_buffer_capacity over 1-4 files; after every call: size <= "
            "capacity, 0 when unbuffered, exact value (no-forcing stratum), recomputed from observed buffer membership (forcing "
            "stratum), capacity restored at backend exits, nothing lost.",
            "layer (c) peeks Class._buffer read-only; degrades to (a)+(b) if unavailable. " + BASE, "2/C15"),
    "C16": ("exploration", "runtime monitoring: snapshot / hostile-mutation / re-snapshot aliasing probes",
            "E1+E2",
            "Arguments, results of ()/values()/items(), popped and deleted children, cross-assigned nodes: every reachable container "
            "is mutated afterwards; collection and resource must equal the snapshot.",
            FAKES + BASE, "2/C16"),
    "C17": ("exploration", "runtime monitoring: audit-hook write monitor + stat/hash snapshots + fake-store write counters; "
            "write events attributed to client calls under the deterministic scheduler",
            "E3+E4",
            "Read-only programs with arbitrary context nesting on existing and missing resources for all 18 classes; no write-class "
            "event, identical (inode,size,mtime,sha256), nothing created, counters unchanged. Part next_to_writer: reads next to "
            "writer threads (same object, child, own object) under delay sweeps; no write event may belong to a read call.",
            FAKES + BASE, "2/C17"),
    "C18": ("exploration", "runtime monitoring: tree type walker after every step + attribute/item twin-program differential",
            "E1",
            "Family closure walked after every step of C02-style histories; attribute syntax vs item syntax on twin resources for all "
            "key classes and depths; protected/method/dunder names through item access; instance attributes subset of _PROTECTED_KEYS.",
            FAKES + BASE, "2/C18"),
    "C19": ("exploration", "runtime monitoring: warm-process vs fresh-interpreter differential over permuted histories",
            "E1",
            "Every probe outcome in warm workers fed random permutations of a ~90-value pool (incl. numpy instance-dependent types, weak and lazy proxies) "
            "is compared with the outcome in a fresh interpreter per value; all cold pair orders of instance-dependent values.",
            "numpy from the offline wheelhouse. " + BASE, "2/C19"),
})

PENDING = {}


def main():
    props = [json.loads(l) for l in open(os.path.join(HERE, "properties.jsonl"))]
    checks = []
    na = []
    for p in props:
        pid = p["id"]
        if pid in CHECKS:
            level, tech, engine, text, note, ref = CHECKS[pid]
            checks.append({
                "property_id": pid,
                "quick_cmd": f"./check {pid} --tier quick",
                "thorough_cmd": f"./check {pid} --tier thorough",
                "evidence_file": f"/verif/evidence/{pid}.json",
                "replay_cmd_template": f"./check {pid} --replay {{path}}",
                "engine": engine,
                "level_claimed": {"category": level, "text": text, "design_ref": f"DESIGN.md section {ref}"},
                "level_note": note,
                "technique": tech,
            })
        else:
            na.append({"property_id": pid,
                       "reason": PENDING.get(pid, "check under construction in this build session; not claimed yet")})
    try:
        fixes = subprocess.run(["git", "-C", "/repo", "log", "--format=%h %s"], capture_output=True, text=True).stdout
    except Exception:  # noqa: BLE001
        fixes = ""
    man = {
        "version": 1,
        "setup_cmd": "./setup.sh",
        "hooks": {
            "guard": "SYNCED_COLLECTIONS_VERIF",
            "enable": "no source hooks exist: all instrumentation (sys.monitoring, audit hooks, lock shims, fakes) "
                      "is attached from the harness; checks export SYNCED_COLLECTIONS_VERIF=1 for uniformity",
            "baseline_off_cmd": "cd /repo && /venv/bin/python -m pytest -ra -q -p no:cacheprovider --timeout=900 "
                                "--continue-on-collection-errors",
            "source_commits": [],
            "add_only": True,
        },
        "engines": [
            {"name": "E1", "path": "vf/session.py", "kind_free_text": "reference-model differential monitor",
             "serves_properties": ["C01", "C02", "C03", "C04", "C05", "C06", "C11", "C12", "C15", "C16", "C18"]},
            {"name": "E2", "path": "vf/catalog.py", "kind_free_text": "independent resource probes, outside writer",
             "serves_properties": ["C01", "C02", "C04", "C05", "C06", "C07", "C08"]},
            {"name": "E3", "path": "vf/fsmon.py", "kind_free_text": "audit-hook file-system write monitor",
             "serves_properties": ["C02", "C04", "C05", "C07", "C17"]},
            {"name": "E4", "path": "vf/sched.py", "kind_free_text": "deterministic line-level scheduler, cooperative "
             "locks, linearizability checker", "serves_properties": ["C09", "C10", "C11", "C13", "C14", "C17"]},
            {"name": "E5", "path": "vf/inject.py", "kind_free_text": "fork-based crash injector, audit-hook fault injector",
             "serves_properties": ["C08", "C10"]},
            {"name": "E6", "path": "vf/findings.py", "kind_free_text": "known-findings classifier keyed by mechanism",
             "serves_properties": [p["id"] for p in props]},
        ],
        "checks": checks,
        "not_applicable": na,
        "notes": "Exit codes of ./check: 0 held on everything explored, 1 unlisted violation (VIOLATION line), "
                 "2 inconclusive (INCONCLUSIVE line, no VIOLATION). Known findings: known_findings.json. "
                 "Repository fix commits so far: " + "; ".join(l for l in fixes.splitlines() if " fix:" in l),
    }
    with open(os.path.join(HERE, "MANIFEST.json"), "w") as f:
        json.dump(man, f, indent=1)
    print(f"MANIFEST.json: {len(checks)} checks, {len(na)} not claimed")


if __name__ == "__main__":
    main()
