#!/usr/bin/env python3
"""Regenerate MANIFEST.json from the table below (run from /verif)."""
import json
import os
import subprocess

HERE = os.path.dirname(os.path.dirname(os.path.abspath(__file__)))

FAKES = ("Redis/MongoDB/Zarr run against in-process fakes of the client calls the library makes "
         "(servers and client libraries are not installed); ")
BASE = ("Trusted base: CPython 3.12, the plain dict/list reference model in vf/model.py, the harness. "
        "Decides only the executions produced by the run; counts are in the evidence file.")

# id -> (level, technique, engine, text, note, design_ref)
CHECKS = {
    "C01": ("exploration", "runtime monitoring: reference-model differential + independent resource probe",
            "E1+E2",
            "Random programs of every mutator at every nesting depth on all 18 classes; after every call the "
            "resource is read without the library and compared type-strictly with a plain model. Exploration "
            "is the right level: the quantifier is over programs/inputs/configurations.",
            FAKES + BASE, "2/C01"),
    "C02": ("exploration", "runtime monitoring: history monitor with an outside writer, reference model",
            "E1+E2",
            "Histories interleaving all read APIs on several objects and retained child handles with "
            "transition-driven out-of-band rewrites; every read is compared with the truth (last content written).",
            FAKES + "handle attachment tracked conservatively from C02's wording. " + BASE, "2/C02"),
    "C03": ("exploration", "runtime monitoring: operation-by-operation differential against built-in dict/list",
            "E1",
            "Full MutableMapping/MutableSequence surface incl. mixins, slices, comparison operators, error paths; "
            "results, exception classes, content and resource compared with the built-in after every operation.",
            FAKES + BASE, "2/C03"),
    "C04": ("exploration", "runtime monitoring: multi-handle sequential histories against one shared model",
            "E1+E2",
            "2-4 objects on one resource plus retained children, adversarial alternation, every mutator incl. "
            "nested clear/reset; shared plain model; resource probed after every step.",
            FAKES + BASE, "2/C04"),
}

CHECKS.update({
    "C05": ("exploration", "runtime monitoring: reference-model differential + audit-hook write monitor + context model",
            "E1+E2+E3",
            "Random programs under random well-nested obj.buffered / buffer_backend() contexts (depth <= 4) for the 8 "
            "buffered classes: every result vs the unbuffered model, no file write while buffered (audit hook), "
            "file == model at the outermost exit, no context entry/exit raises.",
            "small-capacity stratum does not judge early writes (a forced flush is legitimate). " + BASE, "2/C05"),
    "C06": ("exploration", "runtime monitoring: multi-object buffered histories against one shared model",
            "E1+E2",
            "k=2..4 objects on one file under one common buffered state (backend-wide, or per-object contexts "
            "entered/left together in random orders), random role assignment and first-touch order; reads inside "
            "vs shared model; file probed after the common exit must hold every write.",
            "objects in different buffered states on one file are not generated (documented unsupported). " + BASE,
            "2/C06"),
})

PENDING = {}


def main():
    props = [json.loads(l) for l in open(os.path.join(HERE, "properties.jsonl"))]
    checks = []
    na = []
    for p in props:
        pid = p["id"]
        if pid in CHECKS:
            level, tech, engine, text, note, ref = CHECKS[pid]
            checks.append({
                "property_id": pid,
                "quick_cmd": f"./check {pid} --tier quick",
                "thorough_cmd": f"./check {pid} --tier thorough",
                "evidence_file": f"/verif/evidence/{pid}.json",
                "replay_cmd_template": f"./check {pid} --replay {{path}}",
                "engine": engine,
                "level_claimed": {"category": level, "text": text, "design_ref": f"DESIGN.md section {ref}"},
                "level_note": note,
                "technique": tech,
            })
        else:
            na.append({"property_id": pid,
                       "reason": PENDING.get(pid, "check under construction in this build session; not claimed yet")})
    try:
        fixes = subprocess.run(["git", "-C", "/repo", "log", "--format=%h %s"], capture_output=True, text=True).stdout
    except Exception:  # noqa: BLE001
        fixes = ""
    man = {
        "version": 1,
        "setup_cmd": "./setup.sh",
        "hooks": {
            "guard": "SYNCED_COLLECTIONS_VERIF",
            "enable": "no source hooks exist: all instrumentation (sys.monitoring, audit hooks, lock shims, fakes) "
                      "is attached from the harness; checks export SYNCED_COLLECTIONS_VERIF=1 for uniformity",
            "baseline_off_cmd": "cd /repo && /venv/bin/python -m pytest -ra -q -p no:cacheprovider --timeout=900 "
                                "--continue-on-collection-errors",
            "source_commits": [],
            "add_only": True,
        },
        "engines": [
            {"name": "E1", "path": "vf/session.py", "kind_free_text": "reference-model differential monitor",
             "serves_properties": ["C01", "C02", "C03", "C04", "C05", "C06", "C11", "C12", "C15", "C16", "C18"]},
            {"name": "E2", "path": "vf/catalog.py", "kind_free_text": "independent resource probes, outside writer",
             "serves_properties": ["C01", "C02", "C04", "C05", "C06", "C07", "C08"]},
            {"name": "E3", "path": "vf/fsmon.py", "kind_free_text": "audit-hook file-system write monitor",
             "serves_properties": ["C05", "C07", "C17"]},
            {"name": "E4", "path": "vf/sched.py", "kind_free_text": "deterministic line-level scheduler, cooperative "
             "locks, linearizability checker", "serves_properties": ["C09", "C10", "C13", "C14"]},
            {"name": "E5", "path": "vf/inject.py", "kind_free_text": "fork-based crash injector, audit-hook fault injector",
             "serves_properties": ["C08", "C10"]},
            {"name": "E6", "path": "vf/findings.py", "kind_free_text": "known-findings classifier keyed by mechanism",
             "serves_properties": [p["id"] for p in props]},
        ],
        "checks": checks,
        "not_applicable": na,
        "notes": "Exit codes of ./check: 0 held on everything explored, 1 unlisted violation (VIOLATION line), "
                 "2 inconclusive (INCONCLUSIVE line, no VIOLATION). Known findings: known_findings.json. "
                 "Repository fix commits so far: " + "; ".join(l for l in fixes.splitlines() if " fix:" in l),
    }
    with open(os.path.join(HERE, "MANIFEST.json"), "w") as f:
        json.dump(man, f, indent=1)
    print(f"MANIFEST.json: {len(checks)} checks, {len(na)} not claimed")


if __name__ == "__main__":
    main()
