#!/usr/bin/env python3
"""Regenerate seeded/RESULTS.md from the meta.json files (tools/seeded.py eval writes them)."""
import glob
import json
import os

VERIF = os.path.dirname(os.path.dirname(os.path.abspath(__file__)))


def esc(s):
    return str(s).replace("|", "/").replace("\n", " ")


rows, n, own, other, none = [], 0, 0, 0, []
for d in sorted(glob.glob(os.path.join(VERIF, "seeded", "C*_*"))):
    m = json.load(open(os.path.join(d, "meta.json")))
    name = os.path.basename(d)
    n += 1
    conf = m.get("confirmed", {})
    ok = conf.get("demo_on_clean_copy_exit") == 0 and conf.get("demo_with_patch_exit") not in (0, None) \
        and conf.get("suite_passes")
    cb = m.get("caught_by", {})
    caught = sorted(k.split(":")[0] for k, v in cb.items() if v.get("caught") and k.endswith(":quick"))
    missed = sorted(k.split(":")[0] for k, v in cb.items() if not v.get("caught") and k.endswith(":quick"))
    status = m.get("status", "")
    if m["property"] in caught:
        own += 1
    elif caught:
        other += 1
    else:
        none.append(name)
    conf_txt = "yes" if ok else ("see note" if status else "NO")
    rows.append(f"| {name} | {m['property']} | {esc(m.get('summary', ''))[:260]} | {esc(m.get('needs', ''))[:260]} | {conf_txt} | "
                f"{', '.join(caught) or '-'} | {', '.join(missed) or '-'} | {esc(status)[:400]} |")

head = f"""# Independently written property-breaking changes: confirmation and detection

Each change was written by a sub-agent that saw only the text of one property and a scratch worktree of the repository
(nothing from /verif). Round 1 = `<property>_1`, `_2`; round 2 (prompt asking for subtler, corner-case changes) = `_3`, `_4`;
round 3 (prompt asking for changes that need something specific to manifest: a fault, a second thread, a second session,
an unusual value) = `_5`, `_6`; round 4 (no caching shortcuts) = `_7`, `_8`; round 5 (less common API usage and data) = `_9`, `_10`;
round 6 (cooperating sites, third-step state, the in-place merge, rarely used methods, nesting x buffering, boundaries) = `_11`, `_12`.
`confirmed` = I re-ran, on a scratch copy of /repo: the demo passes on the clean copy, fails with the
patch applied, and the pinned suite (578 tests) passes with the patch. `caught by` = `./check <id> --tier quick` exits 1 with a
VIOLATION line when VERIF_REPO points at the patched copy (tools/seeded.py eval). Patches are kept applicable to the current
/repo HEAD (re-created with `patch -F3` when a later `fix:` commit moved their context).

{n} changes: {own} caught by the check of the property they were filed under, {other} by a neighbouring check only,
{len(none)} not caught ({', '.join(none)} - see the note column and DESIGN.md 5.2).

| id | property | change | needs | confirmed | caught by (quick tier) | not caught by | note |
|---|---|---|---|---|---|---|---|
"""
open(os.path.join(VERIF, "seeded", "RESULTS.md"), "w").write(head + "\n".join(rows) + "\n")
print(n, own, other, none)
