#!/usr/bin/env python3
"""Summarise replay files in /verif/replays by signature (development aid)."""
import glob, json, sys, os
pat = sys.argv[1] if len(sys.argv) > 1 else "*"
seen = {}
for f in sorted(glob.glob(f"/verif/replays/{pat}.json"), key=os.path.getmtime):
    d = json.load(open(f))
    v = d["violation"]; s = v.get("sig", {})
    k = (d["property"], s.get("kind"), s.get("sub"), s.get("op"), s.get("strategy"), s.get("stratum"), s.get("cls"))
    seen.setdefault(k, []).append((f, v.get("detail", "")[:int(os.environ.get("W", "400"))]))
for k, lst in seen.items():
    print(k, len(lst)); print("   ", lst[-1][0]); print("   ", lst[-1][1].replace("\n", "\n    "))
