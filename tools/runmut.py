#!/usr/bin/env python3
"""Run checks against a mutated scratch copy of /repo (never touches /repo itself).

usage: tools/runmut.py PATCH.diff CHECK [CHECK...] [--tier quick] [--tests]
Copies /repo to a scratch dir outside /repo and /verif, applies the patch, optionally runs the
pinned test suite there, runs the checks with VERIF_REPO pointing at the copy (evidence and
replays redirected to the scratch dir), prints one line per check, removes the copy.
"""
import os, shutil, subprocess, sys, tempfile

def main():
    args = [a for a in sys.argv[1:] if not a.startswith("--")]
    tier = "quick"
    if "--tier" in sys.argv:
        tier = sys.argv[sys.argv.index("--tier") + 1]
        args.remove(tier)
    patch, checks = args[0], args[1:]
    base = "/dev/shm" if os.access("/dev/shm", os.W_OK) else tempfile.gettempdir()
    d = tempfile.mkdtemp(prefix="mut_", dir=base)
    try:
        repo = os.path.join(d, "repo")
        shutil.copytree("/repo", repo, ignore=shutil.ignore_patterns(".git", "__pycache__", "*.egg-info", "doc"))
        p = subprocess.run(["patch", "-p1", "-s", "-d", repo, "-i", os.path.abspath(patch)], capture_output=True, text=True)
        if p.returncode != 0:
            print("PATCH FAILED", p.stdout, p.stderr); return 3
        if "--tests" in sys.argv:
            t = subprocess.run(["/venv/bin/python", "-m", "pytest", "-q", "-x", "-p", "no:cacheprovider", "--timeout=900"],
                               cwd=repo, capture_output=True, text=True, env={**os.environ, "PYTHONPATH": repo})
            print("tests:", t.stdout.strip().splitlines()[-1] if t.stdout.strip() else t.stderr[-300:])
        env = {**os.environ, "VERIF_REPO": repo, "VERIF_EVIDENCE_DIR": os.path.join(d, "ev"),
               "VERIF_REPLAY_DIR": os.path.join(d, "rp")}
        rc_all = 0
        for c in checks:
            r = subprocess.run(["/verif/check", c, "--tier", tier], env=env, capture_output=True, text=True)
            lines = [l for l in r.stdout.splitlines() if l.startswith(("VIOLATION", "INCONCLUSIVE", "KNOWN", c))]
            det = [l for l in r.stdout.splitlines() if l.startswith("  ") and "unlisted" not in l][:2]
            print(f"{c}: exit={r.returncode} " + " | ".join(lines[:3])[:300])
            for x in det: print("     ", x[:300])
            if r.returncode not in (0, 1): print(r.stderr[-500:])
    finally:
        shutil.rmtree(d, ignore_errors=True)

if __name__ == "__main__":
    sys.exit(main())
