"""C19 - how a value is classified never depends on what was processed before."""
import json
import os
import shutil
import subprocess
import sys
from concurrent.futures import ThreadPoolExecutor

from vf import boot, gen
from vf.boot import DEPS_DIR, REPO, VERIF_ROOT

PROPERTY = "C19"
LEVEL = "exploration"
RULE = ("differential: reference outcomes are computed in one fresh interpreter per pool value (nothing else was "
        "processed there); test outcomes come from warm worker processes that push a random permutation of the "
        "whole pool through every probe and compare each outcome with the reference. Pool: ~50 values - built-"
        "ins, subclasses of each, OrderedDict/defaultdict/UserDict/UserList/UserString/deque/range/bytes/"
        "bytearray/memoryview/array/set/frozenset/Counter/ChainMap/namedtuple/mappingproxy/dict views/generators, "
        "user Mapping and Sequence types, a type that is both, a type that is neither, a virtual Mapping subclass, "
        "three distinct classes sharing one name (a mapping, a sequence, neither) - plus, with numpy, 0-d/1-d/2-d "
        "arrays and scalars of several dtypes (one type, category depends on the instance). 16 probes per value: "
        "the 4 validators, _from_base (2 families), is_base_type x2, the JSON encoder, _convert_numpy, store into "
        "dict / list / attribute dict (node class, memory, disk), merge through update() and reset(), _to_base. "
        "Besides random permutations, every ordered pair (and, thorough, triple) of the instance-dependent numpy "
        "values is run from a cold resolver state. Retry histories: the same container objects are offered twice "
        "(first with a leaf / key that is rejected, then repaired in place); deep-first-sight histories: a type no "
        "resolver has seen is first met at the bottom of data nested 8..150 levels deep with the recursion limit "
        "lowered to 140 (in a thread of its own), then a small value of that type is probed. evaluations = probe outcomes compared; distinct = "
        "(history hash, value, probe); non-trivial = the probe ran after >= 1 other value.")
ASSUMPTIONS = [
    "a class registered as a virtual subclass *after* the resolver first saw it is a change of the type, not "
    "of the history of values, and is not generated",
    "numpy comes from the offline wheelhouse (installed into /verif/.deps by setup.sh or by this check)",
]
SHARD_TIMEOUT = {"quick": 900, "thorough": 5400}
PERMS = {"quick": 12, "thorough": 80}
SHARDS = {"quick": 16, "thorough": 16}


def ensure_numpy():
    if os.path.isdir(os.path.join(DEPS_DIR, "numpy")):
        return True
    try:
        subprocess.run([sys.executable, "-m", "pip", "install", "--quiet", "--no-index", "--find-links",
                        "/opt/veriftools/wheels", "--target", DEPS_DIR, "numpy"],
                       capture_output=True, timeout=300, env={**os.environ, "PIP_NO_INDEX": "1"})
    except Exception:  # noqa: BLE001
        pass
    return os.path.isdir(os.path.join(DEPS_DIR, "numpy"))


def plan(tier, seed):
    np_ok = ensure_numpy()
    # reference outcomes: one fresh interpreter per pool value, computed once and handed to every shard
    n = int(subprocess.run([sys.executable, "-c", "from vf import boot; boot.boot(numpy=%r); from vf import c19pool; "
                            "print(len(c19pool.make_pool()))" % np_ok], cwd=VERIF_ROOT, capture_output=True, text=True,
                           env=dict(os.environ, PYTHONPATH=VERIF_ROOT, VERIF_REPO=REPO), timeout=120).stdout.strip())
    with ThreadPoolExecutor(max_workers=16) as ex:
        refs = list(ex.map(lambda i: _reference(i, np_ok), range(n)))
    return [{"tier": tier, "seed": seed, "shard": i, "numpy": np_ok, "refs": refs} for i in range(SHARDS[tier])]


def _reference(idx, numpy):
    env = dict(os.environ, PYTHONPATH=VERIF_ROOT, PYTHONHASHSEED="0", VERIF_REPO=REPO, PYTHONDONTWRITEBYTECODE="1")
    p = subprocess.run([sys.executable, "-m", "vf.c19pool", str(idx), "1" if numpy else "0"], env=env, cwd=VERIF_ROOT,
                       capture_output=True, text=True, timeout=120)
    if p.returncode != 0:
        raise RuntimeError(f"reference process for value {idx} failed: {p.stderr[-400:]}")
    return json.loads(p.stdout)


def run_shard(spec):
    boot.boot(numpy=spec["numpy"])
    import tempfile

    from vf import c19pool

    pool = c19pool.make_pool()
    out = {"evaluations": 0, "keys": [], "violations": [], "samples": [], "counters": {}, "strata": {}}
    refs = spec["refs"]
    if len(refs) != len(pool) or [r["name"] for r in refs] != [n for n, _ in pool]:
        raise RuntimeError("reference outcomes do not match the pool")
    ref = {r["name"]: r["outcomes"] for r in refs}
    out["counters"]["reference_interpreters"] = len(refs) if spec["shard"] == 0 else 0
    out["counters"]["pool_values"] = len(pool) if spec["shard"] == 0 else 0
    out["counters"]["numpy_values"] = sum(1 for n, _ in pool if n.startswith("np_") or n.endswith("_np")) \
        if spec["shard"] == 0 else 0
    r = gen.rng_for(spec["seed"], "C19", spec["shard"])
    scratch = tempfile.mkdtemp(prefix="vf19_", dir="/dev/shm" if os.access("/dev/shm", os.W_OK) else None)
    keys = set()
    idx_by_name = {n: i for i, (n, _) in enumerate(pool)}

    def compare(hist_key, name, kind, got, position):
        out["evaluations"] += 1
        if position > 0:
            keys.add(gen.case_key([hist_key, name, kind]))
        want = ref[name][kind]
        if got != want and len(out["violations"]) < 12:
            out["violations"].append({
                "sig": {"kind": "history_dependent", "probe": kind, "value": name,
                        "numpy": name.startswith("np_") or name.endswith("_np")},
                "detail": f"probe {kind} of value {name!r} after history {hist_key}: {json.dumps(got)[:300]} "
                          f"but in a fresh interpreter: {json.dumps(want)[:300]}",
                "case": {"history": hist_key, "value": name, "probe": kind}})

    try:
        # ---- random permutations of the whole pool (value-major and probe-major orders)
        for pi in range(PERMS[spec["tier"]]):
            order = list(range(len(pool)))
            r.shuffle(order)
            probes = list(c19pool.PROBES)
            r.shuffle(probes)
            hist_key = f"perm:{spec['seed']}:{spec['shard']}:{pi}"
            pos = 0
            if pi % 2 == 0:
                for i in order:
                    name, fac = pool[i]
                    for k in probes:
                        compare(hist_key, name, k, c19pool.run_probe(k, fac(), scratch), pos)
                        pos += 1
            else:
                for k in probes:
                    for i in order:
                        name, fac = pool[i]
                        compare(hist_key, name, k, c19pool.run_probe(k, fac(), scratch), pos)
                        pos += 1
            for f in os.listdir(scratch):
                os.remove(os.path.join(scratch, f))
            import gc

            gc.collect()  # let the classes created on the fly die, so that their addresses are reused
        out["samples"].append({"history": "random permutation", "first_values": [pool[i][0] for i in order[:8]],
                               "probe_order": probes[:5]})
        # ---- retry histories: the same container objects offered twice (rejected, repaired in place, offered again)
        for name, build, refname in c19pool.retry_scenarios():
            for k in c19pool.PROBES:
                obj, fix = build()
                c19pool.run_probe(k, obj, scratch)
                fix()
                compare(f"retry:{name}", refname, k, c19pool.run_probe(k, obj, scratch), 1)
                out["counters"]["retry_histories"] = out["counters"].get("retry_histories", 0) + 1
        # ---- first sight of a type at the bottom of deeply nested data, close to the recursion limit
        depths = [d for d in range(8, 150) if d % SHARDS[spec["tier"]] == spec["shard"]]
        for d in depths:
            for mapping in (False, True):
                for k in c19pool.PROBES:
                    got = c19pool.deep_first_sight(k, d, mapping, scratch)
                    compare(f"deep_first_sight:{d}", "dyn_userdict" if mapping else "dyn_userlist", k, got, 1)
                    out["counters"]["deep_first_sight"] = out["counters"].get("deep_first_sight", 0) + 1
        for f in os.listdir(scratch):
            os.remove(os.path.join(scratch, f))
    finally:
        shutil.rmtree(scratch, ignore_errors=True)
    # ---- cold pair / triple orders of the instance-dependent values: each in its own interpreter
    inst = [n for n, _ in pool if n.startswith("np_")] + ["list_with_np", "dict_with_np"] if spec["numpy"] else []
    inst = [n for n in inst if n in idx_by_name]
    combos = [(a, b) for a in inst for b in inst if a != b]
    if spec["tier"] == "thorough":
        trip = [(a, b, c) for a in inst[:6] for b in inst[:6] for c in inst[:6] if len({a, b, c}) == 3]
        combos += trip
    mine = [c for i, c in enumerate(combos) if i % SHARDS[spec["tier"]] == spec["shard"]]
    if spec["tier"] == "quick":
        mine = mine[:: 3]
    for combo in mine:
        res = _cold(combo, spec["numpy"])
        hist_key = "cold:" + ">".join(combo)
        for pos, (name, outcomes) in enumerate(res):
            for k, got in outcomes.items():
                compare(hist_key, name, k, got, pos)
        out["counters"]["cold_orders"] = out["counters"].get("cold_orders", 0) + 1
    out["keys"] = sorted(keys)
    return out


def _cold(names, numpy):
    code = (
        "import sys, json, tempfile, shutil, os\n"
        "from vf import boot\n"
        f"boot.boot(numpy={bool(numpy)!r})\n"
        "from vf import c19pool\n"
        "pool = dict(c19pool.make_pool())\n"
        "d = tempfile.mkdtemp(prefix='vf19_', dir='/dev/shm' if os.access('/dev/shm', os.W_OK) else None)\n"
        "out = []\n"
        f"for n in {list(names)!r}:\n"
        "    out.append([n, {k: c19pool.run_probe(k, pool[n](), d) for k in c19pool.PROBES}])\n"
        "shutil.rmtree(d, ignore_errors=True)\n"
        "sys.stdout.write(json.dumps(out))\n"
    )
    env = dict(os.environ, PYTHONPATH=VERIF_ROOT, PYTHONHASHSEED="0", VERIF_REPO=REPO, PYTHONDONTWRITEBYTECODE="1")
    p = subprocess.run([sys.executable, "-c", code], env=env, cwd=VERIF_ROOT, capture_output=True, text=True, timeout=120)
    if p.returncode != 0:
        raise RuntimeError(p.stderr[-400:])
    return json.loads(p.stdout)


def floors(tier, merged):
    c = merged["counters"]
    return [("pool_values", c.get("pool_values", 0), 40), ("numpy_values_in_pool", c.get("numpy_values", 0), 5),
            ("cold_pair_orders_of_instance_dependent_values", c.get("cold_orders", 0), 20)]
