"""C09 - concurrent writers are linearizable: no update is ever lost."""
import time

from vf import boot, catalog, conc, concgen, gen

PROPERTY = "C09"
LEVEL = "exploration"
RULE = ("small multi-threaded writer programs (2-3 threads x 1-2 mutators, unique values) on one JSON file "
        "through {same object, two objects, root + pre-obtained child, two children, two handles on one child, "
        "children of two objects}; every program is run under the deterministic line-level scheduler with a "
        "full delay sweep (each thread in turn is preempted at its k-th executed library line, k = 1.. until "
        "it finishes first) plus, in the thorough tier, two/three-delay (PCT d=3) and random-walk schedules; "
        "every execution's client-boundary history is checked for linearizability against the plain model "
        "(program order + real-time order, results, exception classes, final file content) and for deadlock "
        "and leaked locks. evaluations = controlled executions; distinct_nontrivial = distinct (program, "
        "switch-list) pairs in which a context switch happened in the middle of an operation.")
ASSUMPTIONS = [
    "preemption points are the executed line starts of library code; standard-library calls are atomic "
    "blocks (a subset of what the GIL allows)",
    "threading.RLock is replaced by a cooperative pure-Python lock while the library is imported; a lock "
    "obtained another way would escape the scheduler and show up as a watchdog (inconclusive)",
]
CLASSES = ["JSONDict", "JSONList", "BufferedJSONDict", "BufferedJSONList", "MemoryBufferedJSONDict",
           "MemoryBufferedJSONList", "JSONAttrDict"]
PROGRAMS = {"quick": {"clean": 5, "known": 4}, "thorough": {"clean": 120, "known": 80}}
SHARD_TIMEOUT = {"quick": 600, "thorough": 5400}
BUDGET = {"quick": 30, "thorough": 600}


def plan(tier, seed):
    specs = []
    pieces = 1 if tier == "quick" else 3
    for cname in CLASSES:
        for stratum in ("clean", "known"):
            n = PROGRAMS[tier][stratum]
            for pi in range(pieces):
                specs.append({"cls": cname, "stratum": stratum, "seed": seed, "tier": tier,
                              "start": pi * n // pieces, "count": (pi + 1) * n // pieces - pi * n // pieces})
    # two directed shard kinds explored with the constructor-delay family as well: "threads" = every thread constructs
    # its own object; "mt_off" = the objects were constructed while multithreading support was off. quick runs each
    # for one class (rotating with the seed) so that the check stays within one wave of 16 workers; thorough for all
    if tier == "quick":
        plain = [c for c in CLASSES if not catalog.info(c).buffered]
        own = [(CLASSES[seed % len(CLASSES)], "threads"), (plain[seed % len(plain)], "mt_off")]
    else:
        own = [(c, k) for c in CLASSES for k in ("threads", "mt_off")]
    for cname, kind in own:
        specs.append({"cls": cname, "stratum": "clean", "own_obj": kind, "seed": seed, "tier": tier,
                      "start": 10**6, "count": 1 if tier == "quick" else 4})
    return specs


def make_prog(spec, i):
    info = catalog.info(spec["cls"])
    r = gen.rng_for(spec["seed"], "C09", spec["cls"], spec["stratum"], i)
    if spec.get("own_obj"):
        # two threads that each construct their own object on the not yet opened file and write once (lock
        # registration races); explored with the constructor-delay schedule family as well
        parts, meta = concgen.writer_program(r, info.kind, spec["stratum"], nthreads=2, max_ops=1,
                                             topo="own_obj_in_thread" if spec["own_obj"] == "threads" else "two_obj")
        if spec["own_obj"] == "mt_off":
            # two objects created in a single-threaded set-up phase with multithreading support off, switched on
            # before the threads start: what is set up lazily happens at the start of the first operations
            parts["ctor_mt_off"] = True
            meta = {"topology": "two_obj_ctor_mt_off"}
            for ti, t in enumerate(parts["threads"]):
                t[0] = ({"op": "setitem", "h": ti, "path": [], "args": [f"n{ti}", concgen.uval(ti, 0, r)]}
                        if info.kind == "dict" else
                        {"op": "append", "h": ti, "path": [], "args": [concgen.uval(ti, 0, r)]})
        else:
            parts.pop("ctor_mt_off", None)
        if spec["own_obj"] == "threads" and i % 2 == 0:
            # every other program: plain insertions whose loss cannot go unnoticed
            for ti, t in enumerate(parts["threads"]):
                t[1] = ({"op": "setitem", "h": ti, "path": [], "args": [f"n{ti}", concgen.uval(ti, 0, r)]}
                        if info.kind == "dict" else
                        {"op": "append", "h": ti, "path": [], "args": [concgen.uval(ti, 0, r)]})
    else:
        parts, meta = concgen.writer_program(r, info.kind, spec["stratum"])
    prog = {"cls": info.name, **parts}
    return prog, meta, r


def run_shard(spec):
    boot.boot(lock_shim=True)
    t0 = conc.clock()
    out = {"evaluations": 0, "keys": [], "violations": [], "samples": [], "counters": {}, "strata": {}}
    keys = set()
    c = out["counters"]
    sites = set()
    for i in range(spec["start"], spec["start"] + spec["count"]):
        if conc.clock() - t0 > BUDGET[spec["tier"]]:
            c["budget_cut_programs"] = c.get("budget_cut_programs", 0) + 1
            continue
        prog, meta, r = make_prog(spec, i)
        runner = conc.ProgramRunner(prog)
        try:
            if spec["tier"] != "quick":
                pol = ("sweep", "boundary", "ctor", "two_delay", "random")
            else:
                # quick: the constructor-delay family only where every thread constructs its own object
                pol = ("sweep", "ctor") if spec.get("own_obj") else ("sweep", "boundary")
            res = conc.explore(prog, runner, r, spec["tier"],
                               {"cls": prog["cls"], "stratum": spec["stratum"], "topology": meta["topology"]},
                               policies=pol, deadline=t0 + BUDGET[spec["tier"]] * (1.2 if spec.get("own_obj") else 1.5))
        finally:
            runner.close()
        out["evaluations"] += res["runs"]
        pk = gen.case_key(prog)
        for s in res["schedules"]:
            keys.add((pk ^ s) & (2**63 - 1))
        st = out["strata"].setdefault(spec["stratum"], {"programs": 0, "runs": 0, "violating_programs": 0})
        st["programs"] += 1
        st["runs"] += res["runs"]
        tp = out["strata"].setdefault("topology:" + meta["topology"], {"programs": 0, "runs": 0})
        tp["programs"] += 1
        tp["runs"] += res["runs"]
        c["orders_tried"] = c.get("orders_tried", 0) + res["orders_tried"]
        c["interleaved_runs"] = c.get("interleaved_runs", 0) + res["interleaved_runs"]
        for k, v in res["statuses"].items():
            c["status_" + k] = c.get("status_" + k, 0) + v
        sites |= res["sites"]
        if res["inconclusive"]:
            c["inconclusive_runs"] = c.get("inconclusive_runs", 0) + len(res["inconclusive"])
        if res["violations"]:
            st["violating_programs"] += 1
            out["violations"].extend(res["violations"][:1])
        if len(out["samples"]) < 1:
            out["samples"].append({"program": prog, "runs": res["runs"], "distinct_schedules": len(res["schedules"])})
    out["keys"] = sorted(keys)
    c["preemption_sites"] = sorted(f"{f}:{l}" for f, l in sites)
    return out


def floors(tier, merged):
    c = merged["counters"]
    return [("controlled_runs_with_mid_operation_switch", c.get("interleaved_runs", 0), 500),
            ("distinct_preemption_sites", len(c.get("preemption_sites", [])), 30),
            ("inconclusive_runs_max0", -c.get("inconclusive_runs", 0), 0)]


def extra_coverage(tier, merged):
    return {"distinct_preemption_sites": len(merged["counters"].get("preemption_sites", []))}


def replay(case):
    boot.boot(lock_shim=True)
    return conc.replay_one(case)
