"""C10 - no operation leaks a lock; no interleaving deadlocks; re-pointing a filename does
not break other objects."""
import copy
import itertools
import json
import os
import shutil
import time

from vf import boot, catalog, conc, gen, inject, model, sched
from vf.session import make_scratch

PROPERTY = "C10"
LEVEL = "fault_enumeration"
RULE = ("(A) fault sweep: for every operation kind x class x {unbuffered, inside obj.buffered, inside "
        "buffer_backend()} thread A runs the operation while a fault is injected - OSError(EIO) at the j-th "
        "file-system event of the operation for every j (audit hook), EFBIG after a byte prefix of the write "
        "(RLIMIT_FSIZE), MemoryError at the same points, an unparsable (also: too deeply nested -> RecursionError) or wrong-kind file, a value rejected before the lock is taken, a value "
        "rejected inside the locked merge, a value only the encoder rejects (10**5000), and no fault at all; the operations "
        "include iterators / views that the caller keeps without exhausting them. After A has finished, "
        "the cooperative lock shims are inspected (a lock still owned by A = leak) and thread B performs "
        "operations on the same file through another object, on another file and on another class; B being "
        "unable to run (no enabled thread) = violation. (B) deadlock search: small programs mixing operations "
        "that take the collection lock, the buffer lock and the class lock (object construction, "
        "set_buffer_capacity, filename setter, clear/reset and flushes in buffered mode) under the line-level "
        "scheduler with delay sweeps; deadlock/leak are decided on logical lock state. (C) filename "
        "re-pointing: all 24 orders of {x.filename = q, op via y on p, op via x, op via z newly created on p} "
        "sequentially, and the two-thread interleavings of re-pointing with an operation on the old file. "
        "evaluations = fault cases + controlled runs; distinct = (class, mode, op, fault) / (program, "
        "schedule); non-trivial = the fault fired / a mid-operation switch happened.")
ASSUMPTIONS = [
    "exceptions are injected only where load/save/validation can really fail (file-system calls, parsing, "
    "validation, encoding), not at arbitrary lines",
    "locks are cooperative shims installed while the library is imported",
]
SHARD_TIMEOUT = {"quick": 900, "thorough": 7200}
CLASSES = ["JSONDict", "JSONList", "BufferedJSONDict", "BufferedJSONList", "MemoryBufferedJSONDict",
           "MemoryBufferedJSONList", "JSONAttrDict"]
D_INIT = {"a": 1, "c": {"p": 1}, "l": [1, 2]}
L_INIT = [1, "x", {"p": 1}, [5, 6]]

D_OPS = [("setitem", ["k", {"v": 1}]), ("delitem", ["a"]), ("pop", ["a"]), ("popitem", []),
         ("update", ["mapping", {"k": 2}, None]), ("setdefault", ["k", 3]), ("clear", []),
         ("reset", [{"z": 1}]), ("getitem", ["a"]), ("call", []), ("len", []), ("iter_partial", []),
         ("keys_partial", []), ("values_partial", []), ("items_partial", [])]
L_OPS = [("append", [7]), ("insert", [0, 7]), ("extend", [[7, 8]]), ("iadd", [[7]]), ("setitem", [0, 9]),
         ("delitem", [0]), ("pop", []), ("remove", [1]), ("reverse", []), ("clear", []), ("reset", [[3]]),
         ("getitem", [0]), ("call", []), ("len", []), ("iter_partial", []), ("reversed_partial", [])]
NESTED = {"dict": [("iter_partial", ["c"], []), ("iter_partial", ["l"], []), ("append", ["l"], [5]), ("setitem", ["c"], ["q", 2]), ("clear", ["c"], []), ("reset", ["l"], [[0]])],
          "list": [("iter_partial", [2], []), ("iter_partial", [3], []), ("setitem", [2], ["q", 2]), ("append", [3], [7]), ("clear", [2], []), ("reset", [3], [[0]])]}


def plan(tier, seed):
    specs = []
    for c in CLASSES:
        info = catalog.info(c)
        modes = ["unbuffered"] + (["obj_buffered", "backend_buffered"] if info.buffered else [])
        for m in modes:
            specs.append({"part": "A", "cls": c, "mode": m, "tier": tier, "seed": seed})
    for c in ["BufferedJSONDict", "MemoryBufferedJSONDict", "BufferedJSONList", "MemoryBufferedJSONList", "JSONDict"]:
        for piece in range(2 if tier == "quick" else 6):
            specs.append({"part": "B", "cls": c, "tier": tier, "seed": seed, "piece": piece})
    for c in ["JSONDict", "JSONList", "BufferedJSONDict", "MemoryBufferedJSONList"]:
        specs.append({"part": "C", "cls": c, "tier": tier, "seed": seed})
    return specs


# --------------------------------------------------------------------------- part A
class World:
    def __init__(self, cls_name):
        self.info = catalog.info(cls_name)
        self.cls = self.info.cls()
        self.scratch = make_scratch()
        d, l = self.info.family_classes()
        self.other_cls = l if self.info.kind == "dict" else d
        self.init = copy.deepcopy(D_INIT if self.info.kind == "dict" else L_INIT)
        self.p = catalog.Resource(self.info, self.scratch, "p")
        self.q = catalog.Resource(self.info, self.scratch, "q")
        self.r_other = os.path.join(self.scratch, "other.json")
        self.fresh()

    def fresh(self):
        catalog.reset_class_state(self.cls)
        catalog.reset_class_state(self.other_cls)
        sched.reset_all_locks()
        for f in os.listdir(self.scratch):
            if f.startswith("._"):
                os.remove(os.path.join(self.scratch, f))
        self.p.outside_write(copy.deepcopy(self.init), bump=False)
        self.q.outside_write(copy.deepcopy(self.init), bump=False)
        with open(self.r_other, "wb") as f:
            f.write(b"[1]" if self.info.kind == "dict" else b"{\"a\": 1}")
        self.x = self.p.new_handle()
        self.y = self.p.new_handle()
        self.w = self.q.new_handle()
        self.v = self.other_cls(filename=self.r_other)

    def close(self):
        catalog.reset_class_state(self.cls)
        catalog.reset_class_state(self.other_cls)
        sched.reset_all_locks()
        shutil.rmtree(self.scratch, ignore_errors=True)


PARTIAL = {"iter_partial": iter, "reversed_partial": reversed, "keys_partial": lambda n: iter(n.keys()),
           "values_partial": lambda n: iter(n.values()), "items_partial": lambda n: iter(n.items())}


def _do(node, op, path, args):
    for k in path:
        node = node[k]
    if op in PARTIAL:
        # a lazily evaluated result that the caller keeps without exhausting it (returned, so it stays referenced
        # while the lock shims are inspected and thread B probes)
        it = PARTIAL[op](node)
        return it, next(it, None)
    out = model.run_sut(node, op, [model.decode(a) for a in args])
    if out.kind == "exc":
        raise out.exc
    return out.value


def _run_one(bodies):
    return sched.SCHED.run(bodies, sched.PriorityPolicy(list(range(len(bodies)))), watchdog_s=20.0)


def fault_case(world, mode, op, path, args, fault, out, sig):
    """One (operation, fault) case: A runs the faulty op, then B probes. Returns True if fault fired."""
    world.fresh()
    info = world.info
    x = world.x
    a_result = {}

    def op_call():
        return _do(x, op, path, args)

    def in_mode():
        if mode == "obj_buffered":
            with x.buffered:
                return op_call()
        elif mode == "backend_buffered":
            with world.cls.buffer_backend():
                return op_call()
        return op_call()

    fired = {"v": False}
    kind = fault[0]
    if kind == "unparsable":
        world.p.outside_write(None, raw=b"{\"a\": [1, 2", bump=True)
        fired["v"] = True
    elif kind == "wrong_kind":
        world.p.outside_write([1, 2] if info.kind == "dict" else {"a": 1}, bump=True)
        fired["v"] = True
    elif kind == "none":
        fired["v"] = True  # the fault-free case: the operation itself must not keep a lock
    elif kind == "deep_nesting":
        # an unparsable file of another kind: the decoder gives up with RecursionError
        world.p.outside_write(None, raw=b"[" * 200000 + b"]" * 200000, bump=True)
        fired["v"] = True

    def A():
        try:
            if kind in ("eio", "memoryerror"):
                icpt = inject.FaultAtEvent(fault[1], exc=MemoryError if kind == "memoryerror" else None)
                try:
                    a_result["ret"] = inject.with_interceptor(world.scratch, icpt, in_mode)
                finally:
                    fired["v"] = icpt.fired is not None
                    a_result["event"] = icpt.fired
            elif kind == "efbig":
                with inject.FileSizeLimit(fault[1]):
                    a_result["ret"] = in_mode()
                fired["v"] = True
            else:
                a_result["ret"] = in_mode()
        except sched.SchedAbort:
            raise
        except BaseException as e:  # noqa: BLE001
            a_result["exc"] = e
            if kind == "efbig":
                fired["v"] = True

    res = _run_one([A])
    out["evaluations"] += 1
    c = out["counters"]
    c["cases"] = c.get("cases", 0) + 1
    exc = a_result.get("exc")
    if exc is not None:
        c["A_raised"] = c.get("A_raised", 0) + 1
        c["A_raised:" + type(exc).__name__] = c.get("A_raised:" + type(exc).__name__, 0) + 1
    case = {"cls": info.name, "mode": mode, "op": op, "path": path, "args": args, "fault": list(fault)}
    if fired["v"] and exc is not None and len(out["samples"]) < 2:
        out["samples"].append({**case, "A_raised": type(exc).__name__, "then": "lock shims inspected; thread B probes "
                               "same file / same object / other file / other class / new object"})
    if res["status"] != "ok":
        out["violations"].append({"sig": {**sig, "kind": "A_" + res["status"], "op": op, "fault": kind},
                                  "detail": f"thread A did not finish: {res['status']} {res['blocked']}", "case": case})
        return fired["v"]
    if res["leaked"]:
        names = [_lock_name(world, lk) for lk in sched.held_locks()]
        out["violations"].append({
            "sig": {**sig, "kind": "leaked_lock", "op": op, "fault": kind, "raised": type(exc).__name__ if exc else None},
            "detail": f"after {op}{args} ({mode}) with fault {fault} raised {type(exc).__name__ if exc else None}: "
                      f"{exc}; lock(s) still owned by the finished thread: {names}", "case": case})
        sched.reset_all_locks()
        return fired["v"]
    # ---- thread B: operations on the same file (other object), another file, another class
    if kind in ("unparsable", "wrong_kind", "deep_nesting"):
        world.p.outside_write(copy.deepcopy(world.init), bump=True)
    b_log = []

    def B():
        for name, fn in (("same_file_other_object", lambda: _probe_write(world.y, info.kind)),
                         ("same_object", lambda: _probe_write(world.x, info.kind)),
                         ("other_file", lambda: _probe_write(world.w, info.kind)),
                         ("other_class", lambda: _probe_write(world.v, "list" if info.kind == "dict" else "dict")),
                         ("new_object_same_file", lambda: _probe_write(world.p.new_handle(), info.kind))):
            try:
                fn()
                b_log.append((name, None))
            except sched.SchedAbort:
                raise
            except BaseException as e:  # noqa: BLE001
                b_log.append((name, e))

    resb = _run_one([B])
    c["B_probes"] = c.get("B_probes", 0) + len(b_log)
    if resb["status"] != "ok":
        done = [n for n, _ in b_log]
        out["violations"].append({
            "sig": {**sig, "kind": "blocked_after_fault", "op": op, "fault": kind},
            "detail": f"after {op}{args} ({mode}) with fault {fault} (A raised {type(exc).__name__ if exc else None}), "
                      f"thread B could not complete: {resb['status']}, finished probes {done}", "case": case})
        sched.reset_all_locks()
    for n, e in b_log:
        if e is not None:
            c["B_probe_raised"] = c.get("B_probe_raised", 0) + 1
    return fired["v"]


def _lock_name(world, lk):
    for cls in (world.cls, world.other_cls):
        if getattr(cls, "_cls_lock", None) is lk:
            return f"{cls.__name__}._cls_lock"
        if getattr(cls, "_BUFFER_LOCK", None) is lk:
            return f"{cls.__name__}._BUFFER_LOCK"
        for k, v in getattr(cls, "_locks", {}).items():
            if v is lk:
                return f"{cls.__name__}._locks[{os.path.basename(str(k))!r}]"
    return hex(id(lk))


def _probe_write(obj, kind):
    if kind == "dict":
        obj["probe"] = 1
    else:
        obj.append("probe")


def part_a(spec, out):
    world = World(spec["cls"])
    info = world.info
    mode = spec["mode"]
    sig = {"cls": info.name, "mode": mode, "stratum": "fault_sweep"}
    ops = [(o, [], a) for o, a in (D_OPS if info.kind == "dict" else L_OPS)]
    ops += [(o, p, a) for o, p, a in NESTED[info.kind]]
    keys = []
    try:
        for op, path, args in ops:
            faults = [("none",), ("unparsable",), ("wrong_kind",), ("deep_nesting",), ("encoder_only",), ("rejected_own",),
                      ("rejected_in_update",)]
            # number of fs events of the fault-free op
            world.fresh()
            cnt = inject.CountEvents()

            def clean():
                x = world.x
                if mode == "obj_buffered":
                    with x.buffered:
                        return _do(x, op, path, args)
                elif mode == "backend_buffered":
                    with world.cls.buffer_backend():
                        return _do(x, op, path, args)
                return _do(x, op, path, args)

            try:
                inject.with_interceptor(world.scratch, cnt, clean)
            except Exception:  # noqa: BLE001
                pass
            n_ev = len(cnt.events)
            faults += [("eio", j) for j in range(1, n_ev + 1)]
            faults += [("memoryerror", j) for j in range(1, n_ev + 1)]
            blob = len(json.dumps(world.init)) + 10
            faults += [("efbig", n) for n in ((0, 5, blob // 2) if spec["tier"] == "quick" else range(0, blob, 4))]
            for fault in faults:
                a2 = args
                if fault[0] == "encoder_only":
                    a2 = _with_value(op, args, {"$big": 5000})
                elif fault[0] == "rejected_own":
                    a2 = _with_value(op, args, {"$bad": "set"})
                elif fault[0] == "rejected_in_update":
                    a2 = _with_value(op, args, {"ok": 1, "bad": {"$bad": "set"}}, nested=True)
                if a2 is None:
                    continue
                fired = fault_case(world, mode, op, path, a2, fault, out, sig)
                out["counters"]["fault_fired"] = out["counters"].get("fault_fired", 0) + (1 if fired else 0)
                if fired:
                    keys.append(gen.case_key([info.name, mode, op, path, list(fault)]))
    finally:
        world.close()
    out["keys"] += keys


def _with_value(op, args, value, nested=False):
    """Replace the value argument of a value-taking mutator; None if the op takes no value."""
    if op in ("setitem", "setdefault", "insert") and len(args) >= 2:
        return [args[0], value]
    if op == "append":
        return [value]
    if op in ("extend", "iadd"):
        return [[value]]
    if op == "update":
        return ["mapping", {"k": value}, None]
    if op == "reset":
        return [{"k": value}] if isinstance(args[0], dict) else [[value]]
    return None


# --------------------------------------------------------------------------- part B
def _b_programs(info, r, n):
    """Programs of thread bodies described as lists of primitive actions."""
    acts_d = [("op", "setitem", ["k", 1]), ("op", "clear", []), ("op", "reset", [{"z": 1}]), ("op", "update", ["mapping", {"u": 1}, None]),
              ("op", "pop", ["a"]), ("op", "call", [])]
    acts_l = [("op", "append", [1]), ("op", "clear", []), ("op", "reset", [[1]]), ("op", "pop", []), ("op", "reverse", []),
              ("op", "call", [])]
    acts = acts_d if info.kind == "dict" else acts_l
    special = [("construct",), ("filename",), ("other_class_op",)]
    if info.buffered:
        special += [("setcap", 0), ("setcap", 1), ("setcap", 10**6), ("with_buffered",), ("with_backend", None),
                    ("with_backend", 0)]
    progs = []
    for _ in range(n):
        nthreads = r.choice([2, 2, 3])
        buffered = info.buffered and r.random() < 0.7
        shared_repoint = r.random() < 0.5
        threads = []
        for t in range(nthreads):
            steps = []
            for _s in range(r.choice([1, 2])):
                if r.random() < 0.45:
                    steps.append(list(r.choice(special)))
                else:
                    a = r.choice(acts)
                    steps.append(["op", a[1], a[2], r.choice(["x", "y", "w"])])
            threads.append(steps)
        repointers = [t for t, st in enumerate(threads) if any(s[0] == "filename" for s in st)]
        uses_x = [t for t, st in enumerate(threads) if any(s[0] == "op" and s[3] == "x" for s in st)
                  or any(s[0] == "filename" for s in st)]
        shared = bool(repointers) and len(set(uses_x)) > 1
        if shared and not shared_repoint:
            # clean stratum: the object being re-pointed is not used by any other thread
            keep = repointers[0]
            for t, st in enumerate(threads):
                if t == keep:
                    continue
                for s in st:
                    if s[0] == "op" and s[3] == "x":
                        s[3] = "y"
                threads[t] = [s for s in st if s[0] != "filename"] or [["other_class_op"]]
            shared = False
        progs.append({"threads": threads, "buffered": buffered, "repoint_shared_object": shared})
    return progs


def _b_body(world, steps, log):
    info = world.info

    def run():
        for st in steps:
            try:
                k = st[0]
                if k == "op":
                    obj = {"x": world.x, "y": world.y, "w": world.w}[st[3]]
                    _do(obj, st[1], [], st[2])
                elif k == "construct":
                    o = world.p.new_handle()
                    _probe_write(o, info.kind)
                elif k == "filename":
                    world.x.filename = world.q.path
                    _probe_write(world.x, info.kind)
                elif k == "other_class_op":
                    _probe_write(world.v, "list" if info.kind == "dict" else "dict")
                elif k == "setcap":
                    old = world.cls.get_buffer_capacity()
                    world.cls.set_buffer_capacity(st[1])
                    world.cls.set_buffer_capacity(old)
                elif k == "with_buffered":
                    with world.y.buffered:
                        _probe_write(world.y, info.kind)
                elif k == "with_backend":
                    cm = world.cls.buffer_backend(st[1]) if st[1] is not None else world.cls.buffer_backend()
                    with cm:
                        _probe_write(world.w, info.kind)
            except sched.SchedAbort:
                raise
            except BaseException as e:  # noqa: BLE001
                log.append((st, e))
    return run


def part_b(spec, out):
    world = World(spec["cls"])
    info = world.info
    r = gen.rng_for(spec["seed"], "C10B", spec["cls"], spec["piece"])
    nprog = 5 if spec["tier"] == "quick" else 40
    progs = _b_programs(info, r, nprog)
    if spec["piece"] == 0 and not info.buffered:
        # directed witness of known finding D18 (kept so that the finding is re-observed on every run)
        w = ["op", "setitem", ["k", 1], "x"] if info.kind == "dict" else ["op", "append", [1], "x"]
        progs.insert(0, {"threads": [[["filename"]], [w]], "buffered": False, "repoint_shared_object": True})
    t0 = conc.clock()
    budget = 30 if spec["tier"] == "quick" else 1500
    c = out["counters"]
    sig = {"cls": info.name, "stratum": "deadlock_search"}
    try:
        for prog in progs:
            if conc.clock() - t0 > budget:
                c["budget_cut_programs"] = c.get("budget_cut_programs", 0) + 1
                continue
            nthreads = len(prog["threads"])
            pk = gen.case_key(prog)

            def one(policy, record=False):
                world.fresh()
                log = []
                bodies = [_b_body(world, st, log) for st in prog["threads"]]
                cm = None
                if prog["buffered"]:
                    cm = world.cls.buffer_backend()
                    cm.__enter__()
                try:
                    res = sched.SCHED.run(bodies, policy, watchdog_s=20.0, record_sites=record)
                finally:
                    if cm is not None:
                        try:
                            cm.__exit__(None, None, None)
                        except Exception:  # noqa: BLE001
                            pass
                out["evaluations"] += 1
                c["runs"] = c.get("runs", 0) + 1
                c["status_" + res["status"]] = c.get("status_" + res["status"], 0) + 1
                c["exceptions_in_threads"] = c.get("exceptions_in_threads", 0) + len(log)
                import hashlib

                key = int.from_bytes(hashlib.sha256(repr(res["trace"]).encode()).digest()[:8], "big")
                if any(a >= 0 and b > 0 for a, b, _ in res["trace"]):
                    out["keys"].append((pk ^ key) & (2**63 - 1))
                v = None
                if res["status"] == "deadlock":
                    v = ("deadlock", f"deadlock: threads {res['unfinished']} blocked on "
                         f"{ {t: _lock_name(world, lk) for t, lk in _blocked_locks(res).items()} }")
                elif res["status"] in ("watchdog", "overrun"):
                    c["inconclusive_runs"] = c.get("inconclusive_runs", 0) + 1
                elif res["leaked"]:
                    v = ("leaked_lock", f"locks still owned by finished threads: {res['leaked']}; thread exceptions: "
                         f"{[(s, type(e).__name__) for s, e in log]}")
                if v and len(out["violations"]) < 6:
                    out["violations"].append({"sig": {**sig, "kind": v[0],
                                                      "repoint_shared_object": prog["repoint_shared_object"]},
                                              "detail": v[1] + f"\n    program: {prog}",
                                              "case": {"prog": prog, "policy": policy.describe()}})
                return res

            for victim in range(nthreads):
                order = [victim] + [t for t in range(nthreads) if t != victim]
                res = one(sched.PriorityPolicy(order, [(victim, 10**9)]), record=True)
                seq = res["site_seq"][victim]
                ks = _select(seq, spec["tier"])
                for k in ks:
                    one(sched.PriorityPolicy(order, [(victim, k)]))
    finally:
        world.close()
    out["samples"].append({"part": "B", "cls": info.name, "program": progs[0]})


def _blocked_locks(res):
    return {t: lk for t, lk in res.get("blocked_locks", {}).items()}


def _select(seq, tier):
    if tier != "quick":
        return list(range(1, len(seq) + 1))
    cnt, last, ks = {}, {}, set()
    for i, s in enumerate(seq, start=1):
        cnt[s] = cnt.get(s, 0) + 1
        if cnt[s] <= 1:
            ks.add(i)
        last[s] = i
    ks.update(last.values())
    return sorted(ks)


# --------------------------------------------------------------------------- part C
def part_c(spec, out):
    world = World(spec["cls"])
    info = world.info
    c = out["counters"]
    sig = {"cls": info.name, "stratum": "filename_repoint"}
    try:
        acts = ["F", "Y", "X", "Z"]
        for order in itertools.permutations(acts):
            world.fresh()
            mp = copy.deepcopy(world.init)
            mq = copy.deepcopy(world.init)
            x_on = "p"
            log = []

            def put(m, tag):
                if info.kind == "dict":
                    m[tag] = 1
                else:
                    m.append(tag)

            def body():
                nonlocal x_on
                for a in order:
                    try:
                        if a == "F":
                            world.x.filename = world.q.path
                            x_on = "q"
                        elif a == "Y":
                            _tagged(world.y, info.kind, "y")
                            put(mp, "y")
                        elif a == "X":
                            _tagged(world.x, info.kind, "x")
                            put(mq if x_on == "q" else mp, "x")
                        else:
                            _tagged(world.p.new_handle(), info.kind, "z")
                            put(mp, "z")
                    except sched.SchedAbort:
                        raise
                    except BaseException as e:  # noqa: BLE001
                        log.append((a, e))

            res = _run_one([body])
            out["evaluations"] += 1
            out["keys"].append(gen.case_key([info.name, "C", list(order)]))
            c["repoint_orders"] = c.get("repoint_orders", 0) + 1
            v = None
            if res["status"] != "ok":
                v = f"order {order}: thread blocked ({res['status']})"
            elif res["leaked"]:
                v = f"order {order}: leaked locks {res['leaked']}"
            elif log:
                v = f"order {order}: " + "; ".join(f"{a} raised {type(e).__name__}: {e}" for a, e in log)
            else:
                gp, gq = world.p.probe(), world.q.probe()
                if model.compare(gp, mp) != "ok" or model.compare(gq, mq) != "ok":
                    v = f"order {order}: files hold p={gp!r} q={gq!r}, expected p={mp!r} q={mq!r}"
            if v:
                out["violations"].append({"sig": {**sig, "kind": "repoint_breaks_other_object"}, "detail": v,
                                          "case": {"cls": info.name, "order": list(order)}})
        # two threads: re-pointing next to an operation on the old file (delay sweep)
        for victim in (0, 1):
            k = 1
            while True:
                world.fresh()
                log = []

                def t_f():
                    try:
                        world.x.filename = world.q.path
                        _tagged(world.x, info.kind, "x")
                    except sched.SchedAbort:
                        raise
                    except BaseException as e:  # noqa: BLE001
                        log.append(("F", e))

                def t_y():
                    try:
                        _tagged(world.y, info.kind, "y")
                        _tagged(world.p.new_handle(), info.kind, "z")
                    except sched.SchedAbort:
                        raise
                    except BaseException as e:  # noqa: BLE001
                        log.append(("Y", e))

                pol = sched.PriorityPolicy([victim, 1 - victim], [(victim, k)])
                res = sched.SCHED.run([t_f, t_y], pol, watchdog_s=20.0)
                out["evaluations"] += 1
                c["repoint_concurrent_runs"] = c.get("repoint_concurrent_runs", 0) + 1
                v = None
                if res["status"] != "ok":
                    v = f"concurrent re-pointing: {res['status']} {res['blocked']}"
                elif res["leaked"]:
                    v = f"concurrent re-pointing: leaked {res['leaked']}"
                elif log:
                    v = "concurrent re-pointing: " + "; ".join(f"{a} raised {type(e).__name__}: {e}" for a, e in log)
                if v and len(out["violations"]) < 8:
                    out["violations"].append({"sig": {**sig, "kind": "repoint_breaks_other_object", "concurrent": True},
                                              "detail": v + f" (victim {victim}, k={k})",
                                              "case": {"cls": info.name, "victim": victim, "k": k}})
                if not res["change_hit"] or res["status"] != "ok":
                    break
                k += 1 if spec["tier"] == "thorough" else 3
    finally:
        world.close()
    out["samples"].append({"part": "C", "cls": info.name, "orders": 24})


def _tagged(obj, kind, tag):
    if kind == "dict":
        obj[tag] = 1
    else:
        obj.append(tag)


def run_shard(spec):
    boot.boot(lock_shim=True)
    out = {"evaluations": 0, "keys": [], "violations": [], "samples": [], "counters": {}, "strata": {}}
    {"A": part_a, "B": part_b, "C": part_c}[spec["part"]](spec, out)
    st = out["strata"].setdefault("part_" + spec["part"], {"cases": 0, "violations": 0})
    st["cases"] += out["evaluations"]
    st["violations"] += len(out["violations"])
    out["violations"] = out["violations"][:12]
    out["keys"] = sorted(set(out["keys"]))
    return out


def floors(tier, merged):
    c = merged["counters"]
    return [("fault_cases_in_which_the_fault_fired", c.get("fault_fired", 0), 300),
            ("A_operations_that_raised", c.get("A_raised", 0), 200),
            ("B_probe_operations", c.get("B_probes", 0), 1000),
            ("deadlock_search_runs", c.get("runs", 0), 300),
            ("repoint_orders", c.get("repoint_orders", 0), 24),
            ("inconclusive_runs_max0", -c.get("inconclusive_runs", 0), 0)]


def replay(case):
    """Re-run one recorded fault case of part A (other parts record program and policy for manual re-execution)."""
    boot.boot(lock_shim=True)
    if "fault" not in case:
        return []
    world = World(case["cls"])
    out = {"evaluations": 0, "keys": [], "violations": [], "samples": [], "counters": {}}
    try:
        fault_case(world, case["mode"], case["op"], case["path"], case["args"], tuple(case["fault"]), out,
                   {"cls": case["cls"], "mode": case["mode"], "stratum": "fault_sweep"})
    finally:
        world.close()
    return out["violations"]
