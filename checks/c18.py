"""C18 - nested containers keep the root's family; attribute access equals item access."""
import copy
import shutil

from vf import boot, catalog, e1, gen, model
from vf.session import Session, make_scratch

from . import c04, common

PROPERTY = "C18"
LEVEL = "exploration"
RULE = ("(a) family closure: C02-style histories (all mutators incl. slice assignment, several objects, retained "
        "children, kind-changing out-of-band rewrites) on all 18 classes; after every step the whole in-memory "
        "tree of every object is walked (through _data) and every container node must be exactly the dict/list "
        "class of the root's family; resource content is compared with the model after every step. (b) for the 6 "
        "attribute-dict classes: for every key from {ordinary / unicode identifiers, non-identifiers, numeric-"
        "looking, empty} x parent position at depth 0-3 (also below lists) the program set/get/del/get-missing/"
        "del-missing is run once with attribute syntax and once with item syntax on twin resources; results, "
        "exceptions (KeyError <-> AttributeError for a missing key, otherwise identical classes), content and "
        "resource must agree. (c) for every protected name, every public method name and dunder names: item "
        "assignment stores a plain item, no instance attribute changes identity, attribute access still "
        "returns the object's own attribute, later operations and a reload work. (d) every instance attribute "
        "set by the constructors (roots and children, in and out of buffered contexts) is in _PROTECTED_KEYS. (e) an "
        "attribute object next to an object of the sibling non-attribute family on one file (unbuffered and inside both "
        "backend-wide contexts, either touching first): family walk, attribute navigation and persistence. "
        "distinct = case hash / (class, key, depth, part); non-trivial = all.")
ASSUMPTIONS = ["Redis/MongoDB/Zarr are in-process fakes"]
STRATA = ["clean"]
PER = {"quick": {"clean": 200}, "thorough": {"clean": 1000}}
SHARD_TIMEOUT = {"quick": 600, "thorough": 3600}

IDENT_KEYS = ["k", "key2", "ünï", "_private", "data", "root", "x1", "CamelCase", "name", "sync", "_tag_", "_", "_a_b_",
              "_repr_html_", "x_", "__x", "x__"]
ODD_KEYS = ["x y", "", "1", "a-b", "with\nnewline", "😀"]
INIT = {"a": 1, "c": {"q": 2, "n": {"m": {"deep": 1}}}, "l": [0, {"in_list": True}], "k": "exists"}
PARENTS = [[], ["c"], ["l", 1], ["c", "n", "m"]]


class TypeWalkSession(Session):
    """Session that walks the type of every node of every handle's tree after every step."""

    def do_step(self, step):
        super().do_step(step)
        d, l = self.info.family_classes()
        n = 0
        for hid, obj in list(self.objs.items()):
            H = self.model.handles.get(hid)
            if H is None or not H.attached:
                continue
            n += self._walk(obj, d, l, [hid])
        self.counters["nodes_type_checked"] = self.counters.get("nodes_type_checked", 0) + n

    def _walk(self, node, d, l, path):
        from synced_collections import SyncedCollection

        n = 1
        data = node._data
        want = d if isinstance(data, dict) else l
        if type(node) is not want:
            self.viol("family", f"node at {path} is {type(node).__name__}, expected {want.__name__}",
                      op=self.case["steps"][self.step_index].get("op", "step"))
        items = data.items() if isinstance(data, dict) else enumerate(data)
        for k, v in items:
            if isinstance(v, SyncedCollection):
                n += self._walk(v, d, l, path + [k])
            elif isinstance(v, (dict, list, tuple)):
                self.viol("family", f"plain {type(v).__name__} container stored at {path + [k]} (not a synced node)",
                          op=self.case["steps"][self.step_index].get("op", "step"))
        return n


def plan(tier, seed):
    specs = common.plan_grid(tier, seed, common.class_cfgs(all_cfgs=False), PER, STRATA, pieces=4)
    for s in specs:
        s["part"] = "a"
    for c in catalog.ATTR_DICT_CLASSES:
        specs.append({"part": "bcd", "cls": c.name, "tier": tier, "seed": seed})
    return specs


def make_case(spec, i):
    sp = dict(spec)
    sp["stratum"] = "clean"
    case = c04.build(sp, i, "C18", p_read=0.35, outside=True)
    return case


# --------------------------------------------------------------------------- parts b, c, d
def _nav(obj, path):
    for k in path:
        obj = obj[k]
    return obj


def _outcome(fn):
    try:
        return ("ret", model.to_plain(fn()))
    except Exception as e:  # noqa: BLE001
        return ("exc", type(e))


def part_bcd(spec, out):
    info = catalog.info(spec["cls"])
    cls = info.cls()
    scratch = make_scratch()
    keys_count = 0
    try:
        protected = set(cls._PROTECTED_KEYS)
        class_attrs = set(dir(cls))
        # ---- (b) attribute syntax == item syntax
        n = 0
        for key in IDENT_KEYS + ODD_KEYS:
            if key in protected or key.startswith("__") or key in class_attrs:
                continue
            for ppath in PARENTS:
                n += 1
                ra = catalog.Resource(info, scratch, f"attr{n}")
                ri = catalog.Resource(info, scratch, f"item{n}")
                for r in (ra, ri):
                    r.outside_write(copy.deepcopy(INIT), bump=False)
                oa, oi = ra.new_handle(), ri.new_handle()
                values = [{"nested": [1, {"x": 2}]}, 5, None]
                prog = []
                for v in values:
                    prog += [("set", v), ("get", None)]
                prog += [("del", None), ("get", None), ("del", None), ("set", "again"), ("get", None)]
                for si, (what, v) in enumerate(prog):
                    pa, pi = _nav(oa, ppath), _nav(oi, ppath)
                    if what == "set":
                        a = _outcome(lambda: setattr(pa, key, copy.deepcopy(v)))
                        b = _outcome(lambda: pi.__setitem__(key, copy.deepcopy(v)))
                    elif what == "get":
                        a = _outcome(lambda: getattr(pa, key))
                        b = _outcome(lambda: pi[key])
                    else:
                        a = _outcome(lambda: delattr(pa, key))
                        b = _outcome(lambda: pi.__delitem__(key))
                    out["evaluations"] += 1
                    if b[0] == "exc" and b[1] is KeyError:
                        # a missing key must surface as AttributeError with attribute syntax
                        ok = a[0] == "exc" and a[1] is AttributeError
                    else:
                        ok = a == b
                    if a[0] == "ret" and b[0] == "ret":
                        ok = model.strict_eq(a[1], b[1])
                    if not ok:
                        out["violations"].append({
                            "sig": {"cls": info.name, "kind": "attr_item_differ", "what": what,
                                    "attr_exc": a[1].__name__ if a[0] == "exc" else None,
                                    "item_exc": b[1].__name__ if b[0] == "exc" else None},
                            "detail": f"{info.name} key {key!r} at {ppath}, step {si} {what}: attribute syntax gives "
                                      f"{_fmt(a)}, item syntax gives {_fmt(b)}",
                            "case": {"cls": info.name, "key": key, "parent": ppath, "step": si}})
                        break
                    ca, ci = ra.probe(), ri.probe()
                    if not model.strict_eq(ca, ci) or not model.strict_eq(oa(), oi()):
                        out["violations"].append({
                            "sig": {"cls": info.name, "kind": "attr_item_content_differ", "what": what},
                            "detail": f"{info.name} key {key!r} at {ppath}, step {si} {what}: content differs: "
                                      f"attr {ca!r} vs item {ci!r}",
                            "case": {"cls": info.name, "key": key, "parent": ppath, "step": si}})
                        break
                out["keys"].append(gen.case_key([info.name, "b", key, ppath]))
                ra.remove()
                ri.remove()
        # ---- (c) protected / method / dunder names through item access
        special = sorted(protected) + sorted(x for x in class_attrs if not x.startswith("_")) + \
            ["__class__", "__dict__", "__init__", "__foo__", "__getitem__"]
        for name in special:
            for ppath in ([], ["c"], ["l", 1]):
                n += 1
                r = catalog.Resource(info, scratch, f"prot{n}")
                r.outside_write(copy.deepcopy(INIT), bump=False)
                obj = r.new_handle()
                p = _nav(obj, ppath)
                before = dict(vars(p))
                had_attr = name in before or hasattr(type(p), name)
                own = getattr(p, name, None) if had_attr else None
                out["evaluations"] += 1
                case = {"cls": info.name, "name": name, "parent": ppath}

                def V(kind, detail):
                    out["violations"].append({"sig": {"cls": info.name, "kind": kind, "name_class":
                                                      "protected" if name in protected else "other"},
                                              "detail": f"{info.name} name {name!r} at {ppath}: {detail}", "case": case})
                try:
                    p[name] = {"stored": name}
                    got = p[name]
                except Exception as e:  # noqa: BLE001
                    V("item_access_failed", f"item assignment/read raised {type(e).__name__}: {e}")
                    continue
                if model.to_plain(got) != {"stored": name}:
                    V("item_wrong", f"obj[{name!r}] returned {model.to_plain(got)!r}")
                    continue
                after = vars(p)
                changed = [k for k in set(before) | set(after) if before.get(k, _MISS) is not after.get(k, _MISS)]
                if changed:
                    V("internals_disturbed", f"instance attributes changed identity: {changed}")
                    continue
                if had_attr and not name.startswith("__"):
                    try:
                        now = getattr(p, name)
                    except Exception as e:  # noqa: BLE001
                        V("attr_broken", f"attribute access raised {type(e).__name__}: {e}")
                        continue
                    same = now is own or now == own or (callable(now) and callable(own))
                    if not same or model.to_plain(now) == {"stored": name} and name in protected:
                        V("protected_shadowed", f"obj.{name} no longer addresses the object's own attribute: {now!r}")
                        continue
                try:
                    p["after"] = 1
                    fresh = r.new_handle()()
                    tgt = fresh
                    for k in ppath:
                        tgt = tgt[k]
                    if tgt.get(name) != {"stored": name} or tgt.get("after") != 1:
                        V("not_persisted", f"a fresh object reads {tgt!r}")
                        continue
                    del p[name]
                    if name in _nav(r.new_handle(), ppath):
                        V("not_deleted", "item still present after del")
                        continue
                except Exception as e:  # noqa: BLE001
                    V("later_operation_failed", f"later operation raised {type(e).__name__}: {e}")
                    continue
                out["keys"].append(gen.case_key([info.name, "c", name, ppath]))
                r.remove()
                # (c2) public method / property names that are not protected: attribute *assignment* and *deletion*
                # address the key (reading such a name gives the method, by design)
                if name in protected or name.startswith("_"):
                    continue
                n += 1
                r = catalog.Resource(info, scratch, f"prot{n}")
                r.outside_write(copy.deepcopy(INIT), bump=False)
                obj = r.new_handle()
                p = _nav(obj, ppath)
                before = dict(vars(p))
                out["evaluations"] += 1
                try:
                    setattr(p, name, {"stored": name})
                    got = model.to_plain(p[name])
                    fresh = model.to_plain(_nav(r.new_handle(), ppath)[name])
                except Exception as e:  # noqa: BLE001
                    V("attr_set_not_item_set", f"obj.{name} = v, then obj[{name!r}]: {type(e).__name__}: {e}")
                    continue
                if got != {"stored": name} or fresh != {"stored": name}:
                    V("attr_set_not_item_set", f"after obj.{name} = v: obj[{name!r}] = {got!r}, a fresh object reads {fresh!r}")
                    continue
                if set(vars(p)) != set(before):
                    V("attr_set_not_item_set", f"obj.{name} = v created instance attributes {sorted(set(vars(p)) - set(before))}")
                    continue
                try:
                    delattr(p, name)
                    gone = name not in _nav(r.new_handle(), ppath)
                except Exception as e:  # noqa: BLE001
                    V("attr_del_not_item_del", f"del obj.{name}: {type(e).__name__}: {e}")
                    continue
                if not gone:
                    V("attr_del_not_item_del", f"del obj.{name} left the key in place")
                    continue
                out["keys"].append(gen.case_key([info.name, "c2", name, ppath]))
                r.remove()
        # ---- (e) two families on one file: a non-attribute object of the sibling family and an attribute object
        # share the file (unbuffered, and inside both classes' backend-wide contexts); whichever touches it first,
        # every node under the attribute object must belong to the attribute family and writes through them persist
        sib_name = info.name.replace("AttrDict", "Dict")
        sib = catalog.info(sib_name).cls()
        d_cls, l_cls = info.family_classes()
        for buffered_mode in ([False, True] if info.buffered else [False]):
            for first in ("sibling", "attr"):
                n += 1
                r = catalog.Resource(info, scratch, f"fam{n}")
                r.outside_write(copy.deepcopy(INIT), bump=False)
                a_obj = r.new_handle()
                s_obj = sib(filename=r.path)
                ctxs = []
                if buffered_mode:
                    ctxs = [sib.buffer_backend(), cls.buffer_backend()]
                    for cm in ctxs:
                        cm.__enter__()
                out["evaluations"] += 1
                case = {"cls": info.name, "sibling": sib_name, "buffered": buffered_mode, "first": first}
                try:
                    try:
                        # inside buffered contexts the sibling only reads: the two classes keep separate
                        # buffers, so buffered writes through both would (rightly) end in a metadata conflict
                        def sibling_touch():
                            if buffered_mode:
                                return s_obj["c"]["q"]
                            s_obj["c"]["q"] = 3

                        if first == "sibling":
                            sibling_touch()
                            _ = a_obj["c"]
                        else:
                            _ = a_obj["c"]
                            sibling_touch()
                        bad = _walk_family(a_obj, d_cls, l_cls)
                        got = a_obj.c.n.m.deep
                        a_obj.c.n.m.deep = 7
                    except Exception as e:  # noqa: BLE001
                        bad = f"raised {type(e).__name__}: {e}"
                finally:
                    for cm in reversed(ctxs):
                        try:
                            cm.__exit__(None, None, None)
                        except Exception as e:  # noqa: BLE001
                            bad = bad or f"context exit raised {type(e).__name__}: {e}"
                if not bad:
                    disk = r.probe()
                    if disk.get("c", {}).get("n", {}).get("m", {}).get("deep") != 7:
                        bad = f"write through the attribute object's nested child did not persist: {disk!r}"
                if bad:
                    out["violations"].append({"sig": {"cls": info.name, "kind": "cross_family", "buffered": buffered_mode},
                                              "detail": f"{info.name} next to {sib_name} on one file (buffered={buffered_mode}, "
                                                        f"first touch: {first}): {bad}", "case": case})
                out["keys"].append(gen.case_key([info.name, "e", buffered_mode, first]))
                catalog.reset_class_state(cls)
                catalog.reset_class_state(sib)
        # ---- (d) every instance attribute is protected
        r = catalog.Resource(info, scratch, "d")
        r.outside_write(copy.deepcopy(INIT), bump=False)
        obj = r.new_handle()
        obj()
        nodes = [obj, obj["c"], obj["l"][1], obj["c"]["n"]["m"]]
        ctxs = []
        if info.buffered:
            cm = obj.buffered
            cm.__enter__()
            ctxs.append(cm)
            cm2 = cls.buffer_backend()
            cm2.__enter__()
            ctxs.append(cm2)
            obj["z"] = 1
            nodes += [obj, obj["c"]]
        try:
            for nd in nodes:
                if not isinstance(nd, cls):
                    continue
                out["evaluations"] += 1
                missing = sorted(set(vars(nd)) - protected)
                if missing:
                    out["violations"].append({
                        "sig": {"cls": info.name, "kind": "unprotected_instance_attribute"},
                        "detail": f"{info.name}: instance attributes {missing} are not in _PROTECTED_KEYS",
                        "case": {"cls": info.name, "missing": missing}})
                    break
        finally:
            for cm in reversed(ctxs):
                cm.__exit__(None, None, None)
        out["keys"].append(gen.case_key([info.name, "d"]))
        out["counters"]["protected_names"] = len(protected)
        out["samples"].append({"cls": info.name, "part": "b/c/d", "keys": IDENT_KEYS[:3] + ODD_KEYS[:2],
                               "special_names": special[:6]})
    finally:
        catalog.reset_class_state(cls)
        shutil.rmtree(scratch, ignore_errors=True)


def _walk_family(node, d_cls, l_cls, path=()):
    from synced_collections import SyncedCollection

    data = node._data
    want = d_cls if isinstance(data, dict) else l_cls
    if type(node) is not want:
        return f"node at {list(path)} is {type(node).__name__}, expected {want.__name__}"
    for k, v in (data.items() if isinstance(data, dict) else enumerate(data)):
        if isinstance(v, SyncedCollection):
            b = _walk_family(v, d_cls, l_cls, path + (k,))
            if b:
                return b
    return None


_MISS = object()


def _fmt(o):
    return f"{o[0]} {o[1].__name__ if o[0] == 'exc' else repr(o[1])[:120]}"


def run_shard(spec):
    boot.boot()
    if spec.get("part") == "a":
        return e1.run_shard(spec, make_case, session_cls=TypeWalkSession)
    out = {"evaluations": 0, "keys": [], "violations": [], "samples": [], "counters": {}, "strata": {}}
    part_bcd(spec, out)
    out["violations"] = out["violations"][:20]
    out["keys"] = sorted(set(out["keys"]))
    return out


def floors(tier, merged):
    c = merged["counters"]
    return [("nodes_type_checked", c.get("nodes_type_checked", 0), 20000)]


def replay(case):
    if "steps" in case:
        return e1.run_case(case, session_cls=TypeWalkSession)[0]
    return []
