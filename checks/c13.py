"""C13 - buffered collections stay consistent under concurrent threads."""
import copy
import json
import time

from vf import boot, catalog, conc, concgen, gen

PROPERTY = "C13"
LEVEL = "exploration"
RULE = ("small multi-threaded programs of buffered mutators (setitem, delitem, update, setdefault, append, "
        "extend, insert, reset, clear; 2-3 threads x 1-2 ops, unique values) run inside one "
        "Class.buffer_backend(capacity) context on {distinct files, one file through two objects (also: one of them "
        "empties the collection between two modifications through the other, every operation flushing; a root reset() "
        "that changes only JSON types as the first buffered operation on a file), one "
        "object}, capacities {default, 0, one byte / one file too small so that a flush is forced inside "
        "another thread's operation window, exactly fitting}, both buffering strategies, dict and list; "
        "deterministic line-level scheduler with a full delay sweep per thread (+ PCT/random-walk schedules "
        "in the thorough tier). Oracles per execution: no deadlock, no leaked lock, every operation's "
        "result and - after the context exits - every file's content equal those of some sequential order "
        "(files are independent keys of the history), the context exit does not raise, "
        "get_current_buffer_size() == 0. evaluations = controlled executions; distinct_nontrivial = distinct "
        "(program, switch list) pairs with a mid-operation context switch.")
ASSUMPTIONS = [
    "preemption points are executed line starts of library code; stdlib calls are atomic blocks",
    "locks are cooperative shims installed while the library is imported",
    "reads appear only on objects no other thread uses (shared-object reads are C14)",
]
CLASSES = ["BufferedJSONDict", "BufferedJSONList", "MemoryBufferedJSONDict", "MemoryBufferedJSONList"]
PROGRAMS = {"quick": 12, "thorough": 240}
SHARD_TIMEOUT = {"quick": 600, "thorough": 5400}
BUDGET = {"quick": 30, "thorough": 600}

DICT_OPS = ["setitem", "delitem", "update", "setdefault"]
LIST_OPS = ["append", "extend", "insert"]


def plan(tier, seed):
    specs = []
    pieces = 4 if tier == "quick" else 8
    n = PROGRAMS[tier]
    for cname in CLASSES:
        for pi in range(pieces):
            specs.append({"cls": cname, "seed": seed, "tier": tier,
                          "start": pi * n // pieces, "count": (pi + 1) * n // pieces - pi * n // pieces})
    return specs


def _retype(x):
    if isinstance(x, bool):
        return int(x)
    if isinstance(x, int):
        return bool(x) if x in (0, 1) else float(x)
    if isinstance(x, dict):
        return {k: _retype(v) for k, v in x.items()}
    if isinstance(x, list):
        return [_retype(v) for v in x]
    return x


def make_prog(spec, i):
    info = catalog.info(spec["cls"])
    r = gen.rng_for(spec["seed"], "C13", spec["cls"], i)
    kind = info.kind
    topo = r.choice(["distinct_files", "distinct_files", "one_file_two_objects", "one_file_two_objects",
                     "one_object", "mixed"])
    nthreads = r.choice([2, 2, 3])
    base = concgen.DICT_INIT if kind == "dict" else concgen.LIST_INIT
    if topo == "distinct_files":
        nfiles = nthreads
        roots = [[t, t] for t in range(nthreads)]
        hof = list(range(nthreads))
    elif topo == "one_file_two_objects":
        nfiles = 1
        roots = [[t, 0] for t in range(nthreads)]
        hof = list(range(nthreads))
    elif topo == "one_object":
        nfiles = 1
        roots = [[0, 0]]
        hof = [0] * nthreads
    else:  # two threads share a file through two objects, a third file is touched by another thread
        nfiles = 2
        roots = [[0, 0], [1, 0], [2, 1]]
        hof = [0, 1, 2][:nthreads] if nthreads == 3 else [0, 1]
    inits = [copy.deepcopy(base) for _ in range(nfiles)]
    with_cr = r.random() < 0.45
    threads = []
    private = [hof.count(h) == 1 and sum(1 for x in roots if x[1] == dict(map(tuple, roots))[h]) == 1
               for h in hof]
    for ti in range(nthreads):
        steps = []
        for si in range(r.choice([1, 1, 2])):
            own_object = hof.count(hof[ti]) == 1
            if (private[ti] or own_object) and r.random() < 0.3:
                # a read on an object no other thread uses (its file may be shared with another object; in the
                # shared-memory strategy only reads that do not iterate the shared container - iterating it
                # next to a writer is the C14 known finding D13)
                atomic_only = info.strategy == "memory" and not private[ti]
                op = r.choice(["len", "getitem"] if atomic_only else ["call", "len", "getitem", "iter"])
                args = [("a" if kind == "dict" else 0)] if op == "getitem" else []
                steps.append({"op": op, "h": hof[ti], "path": [], "args": args})
                continue
            if kind == "dict":
                pool = DICT_OPS + (["reset", "clear"] * 2 if with_cr else [])
                op = r.choice(pool)
                args = concgen.dict_op(r, op, ti, si, base)
            else:
                pool = LIST_OPS + (["reset", "clear"] * 2 if with_cr else [])
                op = r.choice(pool)
                args = concgen.list_op(r, op, ti, si, base)
            steps.append({"op": op, "h": hof[ti], "path": [], "args": args})
        threads.append(steps)
    directed = info.strategy == "serialized" and r.random() < 0.3
    if directed:
        # reader-triggered forced flush: T0 makes two modifications of F0, T1 only reads its own file F1 whose
        # load pushes the buffer over a capacity chosen between |F0| and |F0|+|F1| (so the flush runs from the
        # read path, outside any mutator's critical section), optionally a third thread writes F2
        nthreads = r.choice([2, 2, 3])
        nfiles = nthreads
        roots = [[t, t] for t in range(nthreads)]
        inits = [copy.deepcopy(base) for _ in range(nfiles)]
        topo = "reader_forced_flush"
        threads = []
        for ti in range(nthreads):
            if ti == 1:
                threads.append([{"op": r.choice(["call", "len", "getitem"]), "h": 1, "path": [],
                                 "args": []}])
                if threads[-1][0]["op"] == "getitem":
                    threads[-1][0]["args"] = ["a" if kind == "dict" else 0]
                continue
            steps = []
            for si in range(2 if ti == 0 else 1):
                op = r.choice(DICT_OPS if kind == "dict" else LIST_OPS)
                args = concgen.dict_op(r, op, ti, si, base, shared_keys=False) if kind == "dict" else \
                    concgen.list_op(r, op, ti, si, base)
                steps.append({"op": op, "h": ti, "path": [], "args": args})
            threads.append(steps)
        with_cr = False
    emptied = not directed and i % 8 == 3
    if emptied:
        # two objects on one file, both loaded before the threads start: T0 modifies twice through its object, T1
        # empties the collection through the other one, and the capacity forces every operation to flush - so T0's
        # second operation has to pick up "the file is now empty" (an empty container is data, not "no data")
        nthreads, nfiles = 2, 1
        roots = [[0, 0], [1, 0]]
        inits = [copy.deepcopy(base)]
        topo = "emptied_by_other"
        threads = [[], [{"op": "clear", "h": 1, "path": [], "args": []}]]
        for si in range(2):
            op = r.choice(DICT_OPS if kind == "dict" else LIST_OPS)
            args = concgen.dict_op(r, op, 0, si, base) if kind == "dict" else concgen.list_op(r, op, 0, si, base)
            threads[0].append({"op": op, "h": 0, "path": [], "args": args})
        with_cr = True
    retyped = not directed and not emptied and i % 8 == 7
    if retyped:
        # the first buffered operation on a file is a root reset() to content that is ==-equal to the file's but of
        # other JSON types (1 -> 1.0, 0 -> False): it is a modification and must reach the file
        nthreads, nfiles = 2, 2
        roots = [[0, 0], [1, 1]]
        inits = [copy.deepcopy(base), copy.deepcopy(base)]
        topo = "type_only_reset"
        op = r.choice(DICT_OPS if kind == "dict" else LIST_OPS)
        args = concgen.dict_op(r, op, 1, 0, base) if kind == "dict" else concgen.list_op(r, op, 1, 0, base)
        threads = [[{"op": "reset", "h": 0, "path": [], "args": [_retype(base)]}],
                   [{"op": op, "h": 1, "path": [], "args": args}]]
        with_cr = True
    if not directed and topo in ("distinct_files", "one_file_two_objects") and r.random() < 0.35:
        # every thread constructs its own object inside the context, uses it and releases it before it ends: what it
        # buffered must reach the file when the context exits all the same
        topo = topo + "_thread_local"
        roots = []
        for ti, steps in enumerate(threads):
            res = ti if nfiles > 1 else 0
            for st in steps:
                st["h"] = 100 + ti
            steps.insert(0, {"new": 100 + ti, "res": res})
            steps.append({"drop": 100 + ti})
    # capacity
    if info.strategy == "serialized":
        sizes = [len(json.dumps(x)) for x in inits]
        total = sum(sizes)
        cap = r.choice([None, 0, total, total + 1, total + 12, sizes[0] - 1, sizes[0] + 5, 2 * total])
        if directed:
            cap = sizes[0] + r.choice([sizes[1] // 2, sizes[1] - 1, 40])
        if emptied:
            cap = r.choice([0, 0, sizes[0] - 1])
    else:
        cap = r.choice([None, 0, 1, 1, 2, 1000])
        if emptied:
            cap = 0
    prog = {"cls": info.name, "init": inits, "files": nfiles, "roots": roots, "pre": [], "threads": threads,
            "buffered": {"cap": cap}}
    # some objects load before the threads start (first touch outside the threads)
    if r.random() < 0.4 and roots:
        prog["pre"] = [{"op": "len", "h": roots[0][0], "path": [], "args": []}]
    if retyped:
        prog["pre"] = []
    if emptied:
        prog["pre"] = [{"op": "len", "h": 0, "path": [], "args": []}, {"op": "len", "h": 1, "path": [], "args": []}]
    return prog, {"topology": topo, "cap": "default" if cap is None else ("zero" if cap == 0 else "small"),
                  "stratum": "with_clear_reset" if with_cr else "item_ops"}, r


def _extra(prog, res, ops, final, extra):
    if extra.get("exit_exc") is not None:
        e = extra["exit_exc"]
        return ("exit_raised", f"leaving buffer_backend raised {type(e).__name__}: {e}")
    if extra.get("buffer_size_after") != 0:
        return ("buffer_size", f"get_current_buffer_size() == {extra.get('buffer_size_after')!r} after the context exited")
    return None


def run_shard(spec):
    boot.boot(lock_shim=True)
    t0 = conc.clock()
    out = {"evaluations": 0, "keys": [], "violations": [], "samples": [], "counters": {}, "strata": {}}
    keys = set()
    c = out["counters"]
    sites = set()
    for i in range(spec["start"], spec["start"] + spec["count"]):
        if conc.clock() - t0 > BUDGET[spec["tier"]]:
            c["budget_cut_programs"] = c.get("budget_cut_programs", 0) + 1
            continue
        prog, meta, r = make_prog(spec, i)
        runner = conc.ProgramRunner(prog)
        try:
            pol = ("sweep", "boundary") if spec["tier"] == "quick" else ("sweep", "boundary", "two_delay", "random")
            res = conc.explore(prog, runner, r, spec["tier"],
                               {"cls": prog["cls"], "strategy": catalog.info(prog["cls"]).strategy,
                                "stratum": meta["stratum"], "topology": meta["topology"], "cap": meta["cap"]},
                               policies=pol, check_extra=_extra, deadline=t0 + BUDGET[spec["tier"]] * 1.5)
        finally:
            runner.close()
        out["evaluations"] += res["runs"]
        pk = gen.case_key(prog)
        for s in res["schedules"]:
            keys.add((pk ^ s) & (2**63 - 1))
        for name in (meta["stratum"], "topology:" + meta["topology"], "cap:" + meta["cap"]):
            st = out["strata"].setdefault(name, {"programs": 0, "runs": 0, "violating_programs": 0})
            st["programs"] += 1
            st["runs"] += res["runs"]
            if res["violations"]:
                st["violating_programs"] += 1
        c["orders_tried"] = c.get("orders_tried", 0) + res["orders_tried"]
        c["interleaved_runs"] = c.get("interleaved_runs", 0) + res["interleaved_runs"]
        for k, v in res["statuses"].items():
            c["status_" + k] = c.get("status_" + k, 0) + v
        sites |= res["sites"]
        if res["inconclusive"]:
            c["inconclusive_runs"] = c.get("inconclusive_runs", 0) + len(res["inconclusive"])
        if res.get("cut_by_deadline"):
            c["programs_cut_by_deadline"] = c.get("programs_cut_by_deadline", 0) + 1
        if res["violations"]:
            out["violations"].extend(res["violations"][:1])
        if len(out["samples"]) < 1:
            out["samples"].append({"program": prog, "runs": res["runs"], "distinct_schedules": len(res["schedules"])})
    out["keys"] = sorted(keys)
    c["preemption_sites"] = sorted(f"{f}:{l}" for f, l in sites)
    return out


def floors(tier, merged):
    c = merged["counters"]
    return [("controlled_runs_with_mid_operation_switch", c.get("interleaved_runs", 0), 500),
            ("distinct_preemption_sites", len(c.get("preemption_sites", [])), 30),
            ("inconclusive_runs_max0", -c.get("inconclusive_runs", 0), 0)]


def extra_coverage(tier, merged):
    return {"distinct_preemption_sites": len(merged["counters"].get("preemption_sites", []))}


def replay(case):
    boot.boot(lock_shim=True)
    return conc.replay_one(case)
