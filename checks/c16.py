"""C16 - values are copied in and out: no aliasing with user-held objects."""
import copy
import shutil

from vf import boot, catalog, e1, gen, model
from vf.session import make_scratch

from . import common

PROPERTY = "C16"
LEVEL = "exploration"
RULE = ("per case ~14 randomly chosen aliasing probes on a collection with generated nested content, at a random "
        "container position (depth 0-3): (a) pass a nested argument (dicts/lists/tuples to depth 3) through a "
        "value-taking entry point (setitem, slice assignment, setdefault, update in 4 forms, reset, append, "
        "extend, insert, +=, constructor data=), then mutate every container reachable from the argument; (b) "
        "take (), values(), items(), check they are built-in data all the way down, then mutate everything "
        "reachable; (c) mutate a value returned by pop/popitem, or a child handle whose position was removed "
        "by del; (d) assign a synced child / root into another position of the same or of another collection "
        "(dict and list variants) and mutate through each side. After each probe the collection (one read) "
        "and the resource (read without the library) must equal the snapshot taken just before the hostile "
        "mutation. distinct = case hash; non-trivial = >= 5 probes whose hostile mutation touched >= 1 "
        "container.")
ASSUMPTIONS = ["Redis/MongoDB/Zarr are in-process fakes"]
STRATA = ["default"]
PER = {"quick": {"default": 300}, "thorough": {"default": 1500}}
PROBES = ["arg", "arg", "arg", "out_call", "out_values", "out_items", "popped", "deleted_child",
          "assign_child_same", "assign_child_other", "assign_root_other", "ctor_data"]


def plan(tier, seed):
    return common.plan_grid(tier, seed, common.class_cfgs(all_cfgs=False), PER, STRATA, pieces=4)


def make_case(spec, i):
    info = catalog.info(spec["cls"])
    r = gen.rng_for(spec["seed"], "C16", spec["cls"], i)
    ctx = None
    if info.buffered:
        ctx = r.choice([None, "obj", "backend", "obj_in_backend"])
    return {"cls": info.name, "seed": [spec["seed"], "C16", spec["cls"], i], "n": 14, "stratum": "default",
            "probes": [r.choice(PROBES) for _ in range(14)], "ctx": ctx}


def hostile(x, seen=None):
    """Mutate every mutable container reachable from plain ``x``. Returns #containers touched."""
    seen = seen if seen is not None else set()
    if id(x) in seen:
        return 0
    seen.add(id(x))
    n = 0
    if isinstance(x, dict):
        for v in list(x.values()):
            n += hostile(v, seen)
        x["__hostile__"] = ["h"]
        for k in list(x):
            if k != "__hostile__" and not isinstance(x[k], (dict, list)):
                x[k] = "overwritten"
        n += 1
    elif isinstance(x, list):
        for v in list(x):
            n += hostile(v, seen)
        x.append("__hostile__")
        if len(x) > 1:
            x[0] = "overwritten" if not isinstance(x[0], (dict, list)) else x[0]
        n += 1
    elif isinstance(x, tuple):
        for v in x:
            n += hostile(v, seen)
    return n


def only_builtin(x):
    if isinstance(x, dict):
        return type(x) is dict and all(type(k) is str and only_builtin(v) for k, v in x.items())
    if isinstance(x, (list, tuple)):
        return type(x) in (list, tuple) and all(only_builtin(v) for v in x)
    return x is None or type(x) in (bool, int, float, str)


class Ctx:
    def __init__(self, case):
        self.info = catalog.info(case["cls"])
        self.scratch = make_scratch()
        self.r = gen.rng_for(*case["seed"])
        self.g = gen.G(self.r, attr=self.info.attr)
        self.res = catalog.Resource(self.info, self.scratch, "a")
        self.res_b = catalog.Resource(self.info, self.scratch, "b", store=self.res.store)
        self.res.outside_write(self.g.shape(self.info.kind, 3), bump=False)
        self.res_b.outside_write(self.g.shape(self.info.kind, 2), bump=False)
        self.a = self.res.new_handle()
        self.b = self.res_b.new_handle()
        self.touched = 0
        self.probes_done = 0
        # buffered classes: the probes may run inside buffered contexts (values are then kept in the
        # buffer, not re-read from the file, so aliasing is not hidden by a reload)
        self.ctxs = []
        mode = case.get("ctx")
        cls = self.info.cls()
        if mode in ("backend", "obj_in_backend"):
            self.ctxs.append(cls.buffer_backend())
        if mode in ("obj", "obj_in_backend"):
            self.ctxs += [self.a.buffered, self.b.buffered]
        for cm in self.ctxs:
            cm.__enter__()

    def leave(self):
        for cm in reversed(self.ctxs):
            cm.__exit__(None, None, None)
        self.ctxs = []

    def snap(self):
        return (self.res.probe(), self.res_b.probe())

    def read(self):
        return (self.a(), self.b())

    def pick(self, root, kind=None):
        """A random container node inside ``root`` (navigating = reads) and its plain content."""
        plain = root()
        paths = [(p, k) for p, k in gen.G.container_paths(plain, 3) if kind is None or k == kind]
        if not paths:
            self.last_path = None
            return None, None, None
        p, k = self.r.choice(paths)
        node, t = root, plain
        for key in p:
            node, t = node[key], t[key]
        self.last_path = list(p)
        return node, t, k


def run_probe(c, probe):
    from vf.session import Violation

    r, g = c.r, c.g

    def V(kind, detail, **sig):
        raise Violation(kind, c.probes_done, detail,
                        {"cls": c.info.name, "family": c.info.family, "kind": kind, "probe": probe, **sig})

    def check_unchanged(before_res, before_read, what, **sig):
        after_res, after_read = c.snap(), c.read()
        for i in (0, 1):
            if model.compare(after_res[i], before_res[i]) != "ok":
                V("alias_resource", f"{what}: resource {'ab'[i]} changed from {before_res[i]!r} to {after_res[i]!r}", **sig)
            if model.compare(after_read[i], before_read[i]) != "ok":
                V("alias_memory", f"{what}: collection {'ab'[i]} changed from {before_read[i]!r} to {after_read[i]!r}", **sig)

    if probe in ("arg", "ctor_data"):
        node, t, kind = c.pick(c.a)
        if node is None:
            return
        if probe == "ctor_data":
            raw = model.decode(g.container(c.info.kind, 3))
            res2 = catalog.Resource(c.info, c.scratch, f"c{c.probes_done}", store=c.res.store)
            obj = res2.new_handle(data=raw)
            obj_read_first = None
            try:
                # data= is not written until the first save: force one mutating op
                if c.info.kind == "dict":
                    obj["__k__"] = 1
                else:
                    obj.append("__k__")
            except Exception as e:  # noqa: BLE001
                V("unexpected_exception", f"constructor data= then first write raised {type(e).__name__}: {e}")
            before = (res2.probe(), obj())
            c.touched += hostile(raw)
            after = (res2.probe(), obj())
            if model.compare(after[0], before[0]) != "ok" or model.compare(after[1], before[1]) != "ok":
                V("alias_arg", f"constructor data=: mutating the argument afterwards changed the collection: "
                  f"{before!r} -> {after!r}", entry="ctor")
            return
        if kind == "dict":
            entry = r.choice(["setitem", "setdefault", "update_mapping", "update_kwargs", "update_pairs", "reset"])
        else:
            entry = r.choice(["setitem", "slice", "append", "extend", "insert", "iadd", "reset", "extend_tuple"])
        val = model.decode(g.value(3))
        while not isinstance(val, (dict, list, tuple)) or hostile(copy.deepcopy(val)) == 0:
            val = model.decode(g.container(r.choice(["dict", "list"]), 3, n=r.choice([1, 2, 3])))
        arg = val
        try:
            if entry == "setitem" and kind == "dict":
                node[g.key()] = arg
            elif entry == "setitem":
                if len(t) == 0:
                    node.append(arg)
                else:
                    node[r.randrange(len(t))] = arg
            elif entry == "setdefault":
                node.setdefault("fresh_" + str(c.probes_done), arg)
            elif entry == "update_mapping":
                arg = {g.key(): val}
                node.update(arg)
            elif entry == "update_kwargs":
                node.update(kw=val)
            elif entry == "update_pairs":
                arg = [("pk", val)]
                node.update(arg)
            elif entry == "reset":
                arg = {"rk": val} if kind == "dict" else [val, 2]
                node.reset(arg)
            elif entry == "slice":
                arg = [val, "s"]
                node[0:1] = arg
            elif entry == "append":
                node.append(arg)
            elif entry == "extend":
                arg = [val, 3]
                node.extend(arg)
            elif entry == "extend_tuple":
                arg = (val, [4])
                node.extend(arg)
            elif entry == "insert":
                node.insert(0, arg)
            elif entry == "iadd":
                arg = [val]
                node += arg
        except Exception as e:  # noqa: BLE001
            V("unexpected_exception", f"{entry} with a JSON argument raised {type(e).__name__}: {e}", entry=entry)
        before_res, before_read = c.snap(), c.read()
        c.touched += hostile(arg)
        check_unchanged(before_res, before_read, f"mutating the argument passed to {entry}", entry=entry)
        return
    if probe in ("out_call", "out_values", "out_items"):
        node, t, kind = c.pick(c.a, "dict" if probe != "out_call" else None)
        if node is None:
            return
        outv = node() if probe == "out_call" else (list(node.values()) if probe == "out_values" else list(node.items()))
        if not only_builtin(outv):
            V("not_plain", f"{probe}: result contains non-built-in objects: {outv!r}"[:300], entry=probe)
        before_res, before_read = c.snap(), c.read()
        c.touched += hostile(outv)
        check_unchanged(before_res, before_read, f"mutating the result of {probe}", entry=probe)
        return
    if probe == "popped":
        node, t, kind = c.pick(c.a)
        if node is None or len(t) == 0:
            return
        if kind == "dict":
            how = r.choice(["pop", "popitem"])
            got = node.pop(r.choice(list(t))) if how == "pop" else node.popitem()[1]
        else:
            how = "pop"
            got = node.pop(r.randrange(len(t)))
        before_res, before_read = c.snap(), c.read()
        c.touched += _mutate_any(got)
        check_unchanged(before_res, before_read, f"mutating the value returned by {how}", entry=how)
        return
    if probe == "deleted_child":
        node, t, kind = c.pick(c.a)
        if node is None:
            return
        keys = [k for k in (t if kind == "dict" else range(len(t))) if isinstance(t[k], (dict, list))]
        if not keys:
            return
        k = r.choice(keys)
        child = node[k]
        del node[k]
        before_res, before_read = c.snap(), c.read()
        c.touched += _mutate_any(child)
        check_unchanged(before_res, before_read, "mutating a child whose position was removed by del", entry="del")
        return
    if probe in ("assign_child_same", "assign_child_other", "assign_root_other"):
        if probe == "assign_root_other":
            src, st_, sk = c.a, c.a(), c.info.kind
            src_path = []
        else:
            src, st_, sk = c.pick(c.a)
            if src is None or src is c.a:
                return
            src_path = c.last_path
        dst_root = c.a if probe == "assign_child_same" else c.b
        dst, dt, dk = c.pick(dst_root)
        if dst is None:
            return
        dst_path = c.last_path
        if probe == "assign_child_same" and dst_path[: len(src_path)] == src_path:
            return  # destination inside the source: the copy would be part of the source itself
        try:
            if dk == "dict":
                key = "alias_" + str(c.probes_done)
                dst[key] = src
                other = dst[key]
            else:
                how = r.choice(["append", "setitem", "insert", "iadd", "extend"])
                if how == "setitem" and len(dt) == 0:
                    how = "append"
                if how == "append":
                    dst.append(src)
                    other = dst[len(dt)]
                elif how == "setitem":
                    i = r.randrange(len(dt))
                    if probe == "assign_child_same" and dst_path == src_path[:-1] and src_path and src_path[-1] == i:
                        return  # would assign the element onto itself
                    dst[i] = src
                    other = dst[i]
                elif how == "insert":
                    dst.insert(0, src)
                    other = dst[0]
                    if probe == "assign_child_same" and src_path[: len(dst_path)] == dst_path and len(src_path) > len(dst_path):
                        # the source sits in this very list and has just been shifted by one
                        src = _renav(c.a, src_path[: len(dst_path)] + [src_path[len(dst_path)] + 1] + src_path[len(dst_path) + 1:])
                elif how == "iadd":
                    dst += [src]
                    other = dst[len(dt)]
                else:
                    dst.extend([src])
                    other = dst[len(dt)]
        except Exception as e:  # noqa: BLE001
            V("unexpected_exception", f"assigning a synced collection raised {type(e).__name__}: {e}", entry=probe)
        src_before = copy.deepcopy(src())
        oth_before = copy.deepcopy(other())
        # mutate through the copy: the source must not change
        c.touched += _mutate_any(other)
        if model.compare(src(), src_before) != "ok":
            V("alias_assign", f"{probe}: mutating the assigned copy changed the source: {src_before!r} -> {src()!r}",
              entry=probe, direction="copy_to_source")
        oth_now = copy.deepcopy(other())
        _mutate_any(src, tag="__src__")
        if model.compare(other(), oth_now) != "ok":
            V("alias_assign", f"{probe}: mutating the source changed the assigned copy: {oth_now!r} -> {other()!r}",
              entry=probe, direction="source_to_copy")
        return
    raise AssertionError(probe)


def _renav(root, path):
    n = root
    for k in path:
        n = n[k]
    return n


def _mutate_any(x, tag="__hostile__"):
    """Mutate a returned value: plain data directly, synced nodes through their API."""
    from synced_collections import SyncedCollection

    if isinstance(x, SyncedCollection):
        from collections.abc import Mapping

        if isinstance(x, Mapping):
            x[tag] = [1]
        else:
            x.append(tag)
        return 1
    return hostile(x)


def run_case(case):
    boot.boot()
    from vf.session import Violation

    c = Ctx(case)
    vio = []
    try:
        for p in case["probes"]:
            try:
                run_probe(c, p)
            except Violation as v:
                vio.append({"sig": v.sig, "detail": str(v), "case": case})
                break
            except Exception as e:  # noqa: BLE001
                import traceback

                vio.append({"sig": {"cls": c.info.name, "kind": "harness_or_unexpected", "probe": p,
                                    "exc": type(e).__name__},
                            "detail": traceback.format_exc()[-1200:], "case": case})
                break
            c.probes_done += 1
        if not vio and c.ctxs:
            # leaving the contexts flushes: what reaches the files must be what the collections showed
            try:
                before = c.read()
                c.leave()
                after_res, after_read = c.snap(), c.read()
                for i in (0, 1):
                    if model.compare(after_res[i], before[i]) != "ok" or model.compare(after_read[i], before[i]) != "ok":
                        raise Violation("alias_flush", c.probes_done,
                                        f"after leaving the buffered contexts collection {'ab'[i]} / its file hold "
                                        f"{after_read[i]!r} / {after_res[i]!r}, inside the context it showed {before[i]!r}",
                                        {"cls": c.info.name, "family": c.info.family, "kind": "alias_flush"})
            except Violation as v:
                vio.append({"sig": v.sig, "detail": str(v), "case": case})
    finally:
        try:
            c.leave()
        except Exception:  # noqa: BLE001
            pass
        catalog.reset_class_state(c.info.cls())
        shutil.rmtree(c.scratch, ignore_errors=True)
    return vio, c


def run_shard(spec):
    boot.boot()
    out = {"evaluations": 0, "keys": [], "violations": [], "samples": [], "counters": {}, "strata": {}}
    keys = set()
    for i in range(spec["start"], spec["start"] + spec["count"]):
        case = make_case(spec, i)
        vio, c = run_case(case)
        out["evaluations"] += 1
        out["counters"]["probes"] = out["counters"].get("probes", 0) + c.probes_done
        out["counters"]["containers_hostilely_mutated"] = out["counters"].get("containers_hostilely_mutated", 0) + c.touched
        for p in case["probes"][: c.probes_done]:
            out["counters"]["probe:" + p] = out["counters"].get("probe:" + p, 0) + 1
        if c.probes_done >= 5 and c.touched >= 1:
            keys.add(gen.case_key(case))
        if vio and len(out["violations"]) < 30:
            out["violations"].extend(vio)
        if len(out["samples"]) < 1:
            out["samples"].append(case)
    out["keys"] = sorted(keys)
    return out


def floors(tier, merged):
    c = merged["counters"]
    return [("probes", c.get("probes", 0), 3000), ("containers_hostilely_mutated", c.get("containers_hostilely_mutated", 0), 3000)]


def replay(case):
    return run_case(case)[0]
