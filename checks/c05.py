"""C05 - buffered mode is transparent and defers all writes to the outermost exit."""
from vf import catalog, e1, gen
from vf import model as _m
from vf.catalog import MISSING
from vf.session import ModelState

from . import common

PROPERTY = "C05"
LEVEL = "exploration"
RULE = ("seeded programs of every mutator (incl. clear/reset/update and nested-child mutators) and every "
        "read on 1-2 files (one object each, plus retained child handles), interleaved with random "
        "well-nested enter/exit of obj.buffered and Class.buffer_backend() to depth 4 in any order, for "
        "{Buffered,MemoryBuffered} x {Dict,List,AttrDict,AttrList}. Oracles: every result equals the "
        "unbuffered plain model; the audit-hook write monitor sees no write/replace of a file while its "
        "collection is buffered (default-capacity strata); the file, probed without the library, is unchanged "
        "while buffered and equals the model at the outermost exit; no context entry/exit raises. "
        "distinct = case hash; non-trivial = >= 1 mutator executed while buffered and >= 1 flush checked.")
ASSUMPTIONS = [
    "small-capacity stratum: a write while buffered is not judged (a forced flush may legitimately happen); "
    "results, exit content and exceptions are still judged",
    "objects bound to the same file in different buffered states are not generated (documented as unsupported)",
]
STRATA = ["default_cap", "small_cap", "collide", "adopted_nodes"]
PER = {"quick": {"default_cap": 500, "small_cap": 150, "collide": 150, "adopted_nodes": 1},
       "thorough": {"default_cap": 4000, "small_cap": 800, "collide": 800, "adopted_nodes": 1}}
STEPS = {"quick": 35, "thorough": 60}


def _nested_caps_case(info, spec, r, g, ms, inits, roots):
    """Nested backend-wide contexts with explicit capacities: a huge one outside, a capacity-0 one entered and left
    inside it (entering it flushes, which is taken over), and writes afterwards - with the huge capacity back in
    force they must be deferred to the outermost exit like all others."""
    steps = []
    outer_obj = r.random() < 0.4
    if outer_obj:
        st = {"enter": "obj", "h": 0}
        steps.append(st)
        ms.enter(st)
    st = {"enter": "backend", "cap": 10**9}
    steps.append(st)
    ms.enter(st)
    steps.extend(gen.gen_program(g, ms, r.choice([0, 1, 3]), p_read=0.3, depth=2))
    for _ in range(r.choice([1, 1, 2])):
        st = {"enter": "backend", "cap": 0, "flushes": True}
        steps.append(st)
        ms.enter(st)
        steps.append({"exit": 1})
        ms.exit()
        steps.extend(gen.gen_program(g, ms, r.choice([2, 4, 6]), p_read=0.3, depth=2))
    steps.append({"exit": 1})
    ms.exit()
    if outer_obj:
        steps.extend(gen.gen_program(g, ms, 2, p_read=0.3, depth=2, handles=[0]))
        steps.append({"exit": 1})
        ms.exit()
    steps.extend(gen.gen_program(g, ms, 2, p_read=1.0, depth=2))
    return {"cls": info.name, "cfg": spec["cfg"], "res": inits, "roots": roots, "steps": steps,
            "stratum": spec["stratum"], "nested_caps": True,
            "oracle": {"results": True, "resource_strict": True, "buffer_defers": True}}


def plan(tier, seed):
    combos = [(c, {"wc": False, "threading": True}) for c in catalog.BUFFERED_CLASSES]
    combos += [(c, {"wc": True, "threading": False}) for c in catalog.BUFFERED_CLASSES]
    specs = common.plan_grid(tier, seed, combos, PER, STRATA, pieces=4)
    # the D20 witness exists for the shared-memory classes only, once per class
    return [s for s in specs if s["stratum"] != "adopted_nodes"
            or (catalog.info(s["cls"]).strategy == "memory" and s["cfg"]["threading"] and s["start"] == 0)]


def make_case(spec, i, tag="C05", nres=None, p_read=0.35):
    info = catalog.info(spec["cls"])
    r = gen.rng_for(spec["seed"], tag, spec["cls"], spec["cfg"], spec["stratum"], i)
    # stratum collide: scalars that are ==-equal across JSON types (1 / True / 1.0 / 0 / False / 0.0) and a
    # preference for reset()/update() as the first buffered access
    g = gen.G(r, attr=info.attr, collide=spec["stratum"] == "collide", surrogates=True)
    nres = nres or r.choice([1, 1, 2])
    inits = [MISSING if r.random() < 0.15 else g.shape(info.kind, 2) for _ in range(nres)]
    ms = ModelState(info.kind, inits)
    roots = [[h, h] for h in range(nres)]
    for h, res in roots:
        ms.add_root(h, res)
    next_id = nres
    small = spec["stratum"] == "small_cap"
    steps = []
    n = STEPS[spec["tier"]]
    depth = 0
    adopters = set()
    pending = []
    if spec["stratum"] == "adopted_nodes":
        return _witness_d20(info, spec)
    if spec["stratum"] == "collide" and r.random() < 0.4:
        return _type_flip_case(info, spec, r)
    if spec["stratum"] == "default_cap" and r.random() < 0.12:
        return _nested_caps_case(info, spec, r, g, ms, inits, roots)
    while len(steps) < n:
        x = r.random()
        if x < 0.14 and depth < 4:
            if r.random() < 0.5:
                # shared-memory strategy: an object that adopted another object's data (known finding D20)
                # does not get a per-object context of its own here; see the directed witness below
                live = [h.id for h in ms.handles.values() if h.is_root and h.attached
                        and not (info.strategy == "memory" and h.id in adopters)]
                if not live:
                    continue
                st = {"enter": "obj", "h": r.choice(live)}
            else:
                cap = None
                if small and r.random() < 0.8:
                    cap = r.choice([0, 1, 2, 10, 40]) if info.strategy == "serialized" else r.choice([0, 1])
                st = {"enter": "backend", "cap": cap}
            steps.append(st)
            ms.enter(st)
            depth += 1
            continue
        no_handles = not any(h.attached for h in ms.handles.values())
        if (x < 0.26 or no_handles) and depth > 0:
            steps.append({"exit": 1})
            ms.exit()
            depth -= 1
            if depth == 0:
                for res_i in pending:
                    steps.append({"new_root": next_id, "res": res_i})
                    ms.add_root(next_id, res_i)
                    adopters.add(next_id)
                    next_id += 1
                pending = []
            continue
        if x < 0.29 and ms.backend_count > 0:
            # drop an object that was used inside the backend-wide context (no own context active) and
            # continue through a new object on the same file: its buffered writes must still be flushed
            cands = [h for h in ms.handles.values() if h.is_root and h.attached and ms.obj_count.get(h.id, 0) == 0]
            if cands:
                H = r.choice(cands)
                steps.append({"drop": H.id})
                for hh in ms.handles.values():
                    if hh.root == H.id:
                        hh.attached = False
                if r.random() < 0.5:
                    steps.append({"new_root": next_id, "res": H.res})
                    ms.add_root(next_id, H.res)
                    adopters.add(next_id)
                    next_id += 1
                else:
                    pending.append(H.res)  # nobody touches the file again before the contexts exit
                continue
        if x < 0.32:
            attached = [h for h in ms.handles.values() if h.attached]
            H = r.choice(attached)
            try:
                base = ms.resolve(H.res, H.path)
            except Exception:  # noqa: BLE001
                continue
            paths = [p for p, _ in gen.G.container_paths(base, 3) if p]
            if paths:
                sub = r.choice(paths)
                if ms.retain(next_id, H.id, sub):
                    steps.append({"retain": next_id, "h": H.id, "path": sub})
                    next_id += 1
            continue
        # D20 (shared-memory strategy): an object that adopted another object's data is only written through
        # while the backend-wide context in which it adopted the data is still active; afterwards it is read only
        hs = [h.id for h in ms.handles.values() if h.attached]
        if not hs:
            break
        hsel = r.choice(hs)
        if r.random() < 0.06 and not (info.strategy == "memory" and ms.handles[hsel].root in adopters):
            # a multi-item mutator with one item that must be rejected: whatever part of it is applied, what a
            # read shows afterwards must be what later reads show and what the outermost exit writes
            st = gen.gen_rejected(g, ms, hsel)
            if st is not None:
                steps.append(st)
                # the generator cannot know how much was applied: it keeps its own state and stops following
                # the children below the target (the run-time model resynchronises from what a read shows)
                ms._detach_same_parent(ms.handles[hsel].root, ms.handles[hsel].path + list(st["path"]), None, True)
            continue
        ro = info.strategy == "memory" and ms.handles[hsel].root in adopters and ms.backend_count == 0
        steps.extend(gen.gen_program(g, ms, 1, p_read=1.0 if ro else p_read, depth=2, handles=[hsel]))
    while depth > 0:
        steps.append({"exit": 1})
        ms.exit()
        depth -= 1
    for res_i in pending:
        steps.append({"new_root": next_id, "res": res_i})
        ms.add_root(next_id, res_i)
        next_id += 1
    # a few reads after everything has been flushed
    steps.extend(gen.gen_program(g, ms, 3, p_read=1.0, depth=2))
    case = {"cls": info.name, "cfg": spec["cfg"], "res": inits, "roots": roots, "steps": steps,
            "stratum": spec["stratum"],
            "oracle": {"results": True, "resource_strict": True, "buffer_defers": True}}
    if small:
        case["small_capacity"] = True
    return case


def _flip(x):
    """The same data with every 0/1-valued scalar replaced by an ==-equal scalar of another JSON type."""
    if isinstance(x, dict):
        return {k: _flip(v) for k, v in x.items()}
    if isinstance(x, list):
        return [_flip(v) for v in x]
    if x is True:
        return 1
    if x is False:
        return 0
    if isinstance(x, int) and x in (0, 1):
        return bool(x)
    if isinstance(x, float) and x in (0.0, 1.0, 2.0):
        return int(x)
    if isinstance(x, int) and x == 2:
        return 2.0
    return x


def _type_flip_case(info, spec, r):
    """Directed: the first buffered access is a reset()/update() that changes only JSON types."""
    if info.kind == "dict":
        init = {"a": 1, "b": True, "c": {"x": 0, "y": [1.0, False, 2]}, "s": "t"}
    else:
        init = [1, True, {"x": 0, "y": [1.0, False, 2]}, "t"]
    new = _flip(init)
    steps = []
    depth = r.choice([1, 2, 3])
    for _ in range(depth):
        steps.append({"enter": "obj", "h": 0} if r.random() < 0.5 else {"enter": "backend", "cap": None})
    how = r.choice(["reset", "reset", "update"]) if info.kind == "dict" else "reset"
    if how == "reset":
        steps.append({"op": "reset", "h": 0, "path": [], "args": [new]})
    else:
        steps.append({"op": "update", "h": 0, "path": [], "args": ["mapping", new, None]})
    steps.append({"op": "call", "h": 0, "path": [], "args": []})
    for _ in range(depth):
        steps.append({"exit": 1})
    steps.append({"op": "call", "h": 0, "path": [], "args": []})
    return {"cls": info.name, "cfg": spec["cfg"], "res": [init], "roots": [[0, 0]], "steps": steps,
            "stratum": "collide", "oracle": {"results": True, "resource_strict": True, "buffer_defers": True}}


def _witness_d20(info, spec):
    """Directed witness of known finding D20 (shared-memory strategy only)."""
    if info.kind == "dict":
        init = {"c": {"x": 1}}
        w0 = {"op": "setitem", "h": 0, "path": [], "args": ["k", 1]}
        w1 = {"op": "setitem", "h": 1, "path": ["c"], "args": ["y", 2]}
    else:
        init = [[1]]
        w0 = {"op": "append", "h": 0, "path": [], "args": [1]}
        w1 = {"op": "append", "h": 1, "path": [0], "args": [2]}
    steps = [{"enter": "backend", "cap": None}, w0, {"drop": 0}, {"new_root": 1, "res": 0},
             {"op": "len", "h": 1, "path": [], "args": []}, {"exit": 1},
             {"enter": "obj", "h": 1}, w1, {"exit": 1}]
    return {"cls": info.name, "cfg": spec["cfg"], "res": [init], "roots": [[0, 0]], "steps": steps,
            "stratum": "adopted_nodes",
            "oracle": {"results": True, "resource_strict": True, "buffer_defers": True}}


def _nontrivial(case, sess):
    depth, mut_in, flushes = 0, 0, 0
    for s in case["steps"]:
        if "enter" in s:
            depth += 1
        elif "exit" in s:
            depth -= 1
            flushes += 1
        elif "op" in s and depth > 0 and _m.is_mutator(s["op"]):
            mut_in += 1
    return mut_in >= 1 and flushes >= 1


def run_shard(spec):
    return e1.run_shard(spec, make_case, nontrivial=_nontrivial)


def floors(tier, merged):
    c = merged["counters"]
    return [("ops_judged", c.get("ops", 0), 2000),
            ("buffered_steps_watched_by_write_monitor", c.get("buffered_steps", 0), 500)]


def replay(case):
    return e1.run_case(case)[0]
