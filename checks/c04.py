"""C04 - writes through any handle never clobber changes made via other handles.

Sequential histories over 2-4 collection objects bound to one resource plus retained
nested-child handles of each; one shared plain model; the resource is probed after
every step."""
import copy

from vf import catalog, e1, gen
from vf import model as _m
from vf.catalog import MISSING
from vf.session import ModelState

from . import common

PROPERTY = "C04"
LEVEL = "exploration"
RULE = ("seeded histories over 2-4 objects on one resource and up to 4 retained child handles each "
        "(depth <= 4), steps alternate handles adversarially (write through A, then mutate through a "
        "child of B taken before A's write); every mutator including clear()/reset() on nested children; "
        "one shared plain model; result of every op and resource content after every step are compared. "
        "A retained handle is asserted on only while attached by the wording of C02 (same container kind at "
        "its position ever since, not re-targeted through its own parent object). distinct = case hash; "
        "non-trivial = ops issued through >= 2 different handles incl. >= 1 retained child.")
ASSUMPTIONS = ["Redis/MongoDB/Zarr are in-process fakes"]
STRATA = ["clean", "child_clear_reset", "collide", "io_fault"]
PER = {"quick": {"clean": 250, "child_clear_reset": 200, "collide": 40, "io_fault": 150},
       "thorough": {"clean": 1200, "child_clear_reset": 800, "collide": 150, "io_fault": 800}}
STEPS = {"quick": 30, "thorough": 50}


def plan(tier, seed):
    specs = common.plan_grid(tier, seed, common.class_cfgs(all_cfgs=False), PER, STRATA, pieces=4)
    return [s for s in specs if s["stratum"] != "io_fault" or catalog.info(s["cls"]).backend == "json"]


def build(spec, i, tag, p_read=0.3, outside=False, fault_mode="reissue"):
    info = catalog.info(spec["cls"])
    r = gen.rng_for(spec["seed"], tag, spec["cls"], spec["stratum"], i)
    g = gen.G(r, attr=info.attr, collide=spec["stratum"] == "collide", surrogates=info.backend == "json")
    init = MISSING if r.random() < 0.05 else g.shape(info.kind, 3)
    ms = ModelState(info.kind, [init])
    n_roots = r.choice([2, 2, 3, 4]) if not outside else r.choice([1, 2, 3])
    roots = [[h, 0] for h in range(n_roots)]
    for h, _ in roots:
        ms.add_root(h, 0)
    next_id = n_roots
    steps = []
    with_cr = spec["stratum"] in ("child_clear_reset", "io_fault")
    base_filter = None if with_cr or spec["stratum"] == "collide" else "no_child_cr"
    n = STEPS[spec["tier"]]
    last_writer = None
    past = []
    while len(steps) < n:
        x = r.random()
        attached = [h for h in ms.handles.values() if h.attached]
        children = [h for h in attached if not h.is_root]
        if x < 0.18 and len(children) < 4 * n_roots:
            # retain a child of some handle
            H = r.choice(attached)
            try:
                base = ms.resolve(H.res, H.path)
            except Exception:  # noqa: BLE001
                continue
            paths = [p for p, _ in gen.G.container_paths(base, 4) if p]
            if not paths:
                continue
            sub = r.choice(paths)
            st = {"retain": next_id, "h": H.id, "path": sub}
            if ms.retain(next_id, H.id, sub):
                steps.append(st)
                next_id += 1
            continue
        if outside:
            # mirror of Session.raw_history: one entry per distinct content the resource has held
            cur = ms.truth[0]
            if not past or not (past[-1] == cur and _m.strict_eq(past[-1], cur)):
                past.append(copy.deepcopy(cur))
        if outside and x < 0.18 + 0.05:
            # byte-identical restore of an earlier state (A, B, A histories)
            k = r.choice([1, 1, 2, 3])
            if len(past) > k and past[-1 - k] != MISSING:
                steps.append({"restore": k, "res": 0, "bump": r.random() < 0.3})
                ms.outside(0, copy.deepcopy(past[-1 - k]))
            continue
        if outside and x < 0.18 + 0.22:
            from .c02 import rewrite

            new, trans = rewrite(g, ms.logical[0], info.kind)
            steps.append({"outside": new, "res": 0, "bump": r.random() < 0.5, "trans": trans,
                          "replace": r.random() < 0.4})
            ms.outside(0, new)
            continue
        # an operation: prefer a handle of another root than the last writer
        cands = attached
        if last_writer is not None and r.random() < 0.7:
            other = [h for h in attached if h.root != last_writer]
            cands = other or attached
        if children and r.random() < 0.5:
            cc = [h for h in cands if not h.is_root]
            cands = cc or cands
        H = r.choice(cands)
        flt = None
        if base_filter == "no_child_cr" and not H.is_root:
            flt = ["setitem", "delitem", "pop", "popitem", "update", "setdefault", "insert", "append",
                   "extend", "iadd", "remove", "reverse"]
        if info.backend == "json" and r.random() < 0.03 and ms.truth[0] != MISSING and len(ms.obj_count) < 6:
            # one more object on the resource, obtained by deep-copying / pickling an existing one
            srcs = [h.id for h in attached if h.is_root]
            if srcs:
                steps.append({"new_root": next_id, "res": 0, "via": r.choice(["deepcopy", "deepcopy", "pickle"]),
                              "src": r.choice(srcs)})
                ms.add_root(next_id, 0)
                next_id += 1
                continue
        if r.random() < 0.04 and spec["stratum"] != "io_fault":
            # a multi-item mutator with one item that must be rejected: whatever part of it was applied, the
            # resource holds at once what a read shows (vf.session._do_rejected)
            st = gen.gen_rejected(g, ms, H.id, nonjson=info.forbids_nonjson)
            if st is not None:
                steps.append(st)
                ms._detach_same_parent(H.root, H.path + list(st["path"]), None, True)
            continue
        single_fault = spec["stratum"] == "io_fault" and fault_mode == "single" and r.random() < 0.3
        snap = copy.deepcopy(ms) if single_fault else None
        sub_steps = gen.gen_program(g, ms, 1, p_read=0.0 if single_fault else p_read, depth=2, handles=[H.id],
                                    mutator_filter=flt)
        if single_fault and sub_steps:
            # a mutator that fails with an injected I/O fault (during its load or its save) and is *not* re-issued:
            # the generator goes on from the state before it, and reads through the same handle, through the other
            # objects and through retained children follow at once
            ms.__dict__.clear()
            ms.__dict__.update(snap.__dict__)
            f = dict(sub_steps[0])
            f["fault"] = {"eio": r.choice([1, 2, 2, 2, 3])}
            steps.append(f)
            steps.extend(gen.gen_program(g, ms, r.choice([1, 2, 3]), p_read=1.0, depth=2, handles=[H.id]))
            steps.extend(gen.gen_program(g, ms, r.choice([0, 1, 2]), p_read=1.0, depth=2))
            continue
        for st in sub_steps:
            steps.append(st)
            if _m.is_mutator(st["op"]):
                last_writer = H.root
    if spec["stratum"] == "io_fault" and fault_mode == "reissue":
        # idempotent mutators are first issued with an injected I/O fault (EIO at the j-th file-system event of
        # the call: during the load or during the save) and then re-issued cleanly: a failed call through one
        # handle must not make later calls through that handle (or its children) clobber other handles' writes
        idem = {"setitem", "update", "setdefault", "reset", "clear"}
        out = []
        for st in steps:
            if "op" in st and st["op"] in idem and not (st["op"] == "setitem" and isinstance(st["args"][0], dict)) \
                    and r.random() < 0.4:
                f = dict(st)
                f["fault"] = {"eio": r.choice([1, 1, 2, 3, 4])}
                out.append(f)
            out.append(st)
        steps = out
    case = {"cls": info.name, "cfg": spec["cfg"], "res": [init], "roots": roots, "steps": steps,
            "stratum": spec["stratum"], "oracle": {"results": True, "resource_strict": True}}
    if outside:
        case["track_raw"] = True
    if info.backend == "json" and r.random() < 0.2:
        case["symlink"] = True  # the file name is a symbolic link
    return case


def make_case(spec, i):
    return build(spec, i, "C04")


def _nontrivial(case, sess):
    hs = {s["h"] for s in case["steps"] if "op" in s}
    nroots = len(case["roots"])
    return len(hs) >= 2 and any(h >= nroots for h in hs)


def run_shard(spec):
    return e1.run_shard(spec, make_case, nontrivial=_nontrivial)


def floors(tier, merged):
    c = merged["counters"]
    return [("ops_judged", c.get("ops", 0), 2000), ("mutating_ops", c.get("mut", 0), 800)]


def replay(case):
    return e1.run_case(case)[0]
