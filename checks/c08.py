"""C08 - a crash during a save leaves each JSON file wholly old or wholly new."""
import copy
import json
import os
import shutil
import time

from vf import boot, catalog, e1, gen, inject, model
from vf.catalog import MISSING
from vf.session import ModelState, make_scratch

PROPERTY = "C08"
LEVEL = "fault_enumeration"
RULE = ("for each save scenario (root setitem, nested mutator, reset, clear, update, list ops, per-object "
        "buffered exit, backend-wide flush of 1-4 files in both strategies, capacity-forced flush, first write of a "
        "missing file, save through a deep copy, through a symbolic link, by an object constructed while multithreading "
        "support was off and switched on again before the save) x "
        "atomic-mode configuration {write_concern, threading, both} the parent fork()s one child per crash "
        "point: every executed library line of the action (LINE counter), before and after every audited "
        "file-system event, and every byte prefix of the data handed to write() (RLIMIT_FSIZE with "
        "SIGXFSZ=SIG_DFL; every n for small blobs, stride + boundaries for large). After each kill every "
        "target file is read without the library and must be strictly equal to its complete old or its "
        "complete new content, and a fresh collection object must open it. Negative control: the "
        "non-atomic mode (write_concern=False, threading disabled) must show torn files under the byte-"
        "prefix sweep, otherwise the run is inconclusive. Unserialisable content (integers beyond the "
        "int->str digit limit, nested or as int subclass) through every mutator in all four write modes "
        "must leave the file byte-identical. evaluations = crash/fault points executed; distinct = "
        "(scenario, point) pairs; non-trivial = the child was actually killed at the point.")
ASSUMPTIONS = [
    "process-kill semantics (os._exit / SIGXFSZ): page-cache contents survive; power loss without fsync is "
    "outside the statement",
    "leftover ._<uuid>_name temporary files are not part of the property",
]
SHARD_TIMEOUT = {"quick": 900, "thorough": 7200}

ATOMIC_CFGS = [{"wc": True, "threading": False}, {"wc": False, "threading": True}, {"wc": True, "threading": True}]
NONATOMIC = {"wc": False, "threading": False}


class IntSub(int):
    pass


def scenarios(tier):
    """(name, cls, nfiles, steps, kind-of-buffering) - steps in vf.session format."""
    big = {"k%d" % i: ["v" * 7, i, {"n": [i, None, 0.5]}] for i in range(12 if tier == "quick" else 40)}
    S = []
    for c in ("JSONDict", "BufferedJSONDict", "MemoryBufferedJSONDict", "JSONAttrDict"):
        S.append(("root_setitem", c, 1, [{"op": "setitem", "h": 0, "path": [], "args": ["new", {"x": [1, 2, 3]}]}]))
        S.append(("nested_mutator", c, 1, [{"op": "append", "h": 0, "path": ["l"], "args": ["tail"]}]))
        S.append(("reset", c, 1, [{"op": "reset", "h": 0, "path": [], "args": [{"only": "this", "l": [9]}]}]))
        S.append(("clear", c, 1, [{"op": "clear", "h": 0, "path": [], "args": []}]))
        S.append(("update_big", c, 1, [{"op": "update", "h": 0, "path": [], "args": ["mapping", big, None]}]))
    for c in ("JSONDict", "JSONList", "BufferedJSONDict", "MemoryBufferedJSONDict"):
        st = [{"op": "setitem", "h": 0, "path": [], "args": ["first", {"x": [1, 2, 3]}]}] if c.endswith("Dict") else \
            [{"op": "append", "h": 0, "path": [], "args": [{"first": [1, 2, 3]}]}]
        S.append(("first_write_missing_file", c, 1, st))
    for c in ("JSONDict", "JSONList", "MemoryBufferedJSONDict"):
        # the save is made through a copy.deepcopy() of the object that was configured (write_concern ...)
        st = [{"op": "setitem", "h": 0, "path": [], "args": ["new", {"x": [1, 2, 3]}]}] if c.endswith("Dict") else \
            [{"op": "append", "h": 0, "path": [], "args": [{"new": [1, 2, 3]}]}]
        S.append(("deepcopied_handle", c, 1, st))
    for c in ("JSONDict", "JSONList", "BufferedJSONDict"):
        # the object was constructed (and first used) while multithreading support was switched off; the support is
        # switched on again before the save, so the save must be atomic whatever write_concern says
        st = [{"op": "setitem", "h": 0, "path": [], "args": ["new", {"x": [1, 2, 3]}]}] if c.endswith("Dict") else \
            [{"op": "append", "h": 0, "path": [], "args": [{"new": [1, 2, 3]}]}]
        S.append(("constructed_mt_off", c, 1, st))
    for c in ("JSONDict", "BufferedJSONDict"):
        # the file name is a symbolic link to the data file
        S.append(("symlinked_file", c, 1, [{"op": "setitem", "h": 0, "path": [], "args": ["new", {"x": [1, 2, 3]}]}]))
    for c in ("JSONList", "BufferedJSONList", "MemoryBufferedJSONList"):
        S.append(("list_extend", c, 1, [{"op": "extend", "h": 0, "path": [], "args": [[1, "two", {"three": 3}]]}]))
        S.append(("list_pop", c, 1, [{"op": "pop", "h": 0, "path": [], "args": []}]))
        S.append(("list_reset", c, 1, [{"op": "reset", "h": 0, "path": [], "args": [["a", "b"]]}]))
    for c in ("BufferedJSONDict", "MemoryBufferedJSONDict", "BufferedJSONList", "MemoryBufferedJSONList"):
        d = c.endswith("Dict")
        w = (lambda h, t: {"op": "setitem", "h": h, "path": [], "args": ["w%d" % h, t]}) if d else \
            (lambda h, t: {"op": "append", "h": h, "path": [], "args": [t]})
        S.append(("obj_buffered_exit", c, 1, [{"enter": "obj", "h": 0}, w(0, "a"), w(0, "b"), {"exit": 1}]))
        for n in ((1, 3) if tier == "quick" else (1, 2, 3, 4)):
            st = [{"enter": "backend", "cap": None}] + [w(h, "f%d" % h) for h in range(n)] + [{"exit": 1}]
            S.append(("backend_flush_%d" % n, c, n, st))
        cap = 1 if "Memory" in c else 30
        st = [{"enter": "backend", "cap": cap}] + [w(h, "forced%d" % h) for h in range(3)] + [{"exit": 1}]
        S.append(("capacity_forced_flush", c, 3, st))
    return S


def plan(tier, seed):
    specs = []
    sc = scenarios(tier)
    for si, (name, cls, nfiles, steps) in enumerate(sc):
        for ci, cfg in enumerate(ATOMIC_CFGS):
            if tier == "quick" and name == "deepcopied_handle":
                if ci != 0:
                    continue  # quick: the configuration in which only write_concern makes the save atomic
            elif name == "constructed_mt_off":
                if ci != 1:
                    continue  # only the configuration in which the threading support alone makes the save atomic
            elif tier == "quick" and (si + ci + seed) % 3 != 0 and name not in ("root_setitem", "backend_flush_3",
                                                                                 "first_write_missing_file"):
                continue  # quick: each scenario in one configuration (rotating with the seed)
            specs.append({"kind": "crash", "scenario": si, "cfg": cfg, "tier": tier, "seed": seed})
    specs.append({"kind": "control", "tier": tier, "seed": seed})
    specs.append({"kind": "unserializable", "tier": tier, "seed": seed})
    return specs


INIT_D = {"a": 1, "l": [1, 2, {"z": None}], "s": "text", "n": {"m": {"deep": [True, 2.5]}}}
INIT_L = [1, "two", [3, 4], {"five": 5}]


class World:
    """Files with old content, objects, the action and the expected new contents."""

    def __init__(self, cls_name, cfg, nfiles, steps, missing=False, symlink=False, deepcopied=False, mt_off_ctor=False):
        self.info = catalog.info(cls_name)
        self.cls = self.info.cls()
        self.cfg = cfg
        self.steps = steps
        self.scratch = make_scratch()
        self.old = [copy.deepcopy(INIT_D if self.info.kind == "dict" else INIT_L) for _ in range(nfiles)]
        for i, o in enumerate(self.old):
            if self.info.kind == "dict":
                o["id"] = i
            else:
                o.append(i)
        if missing:
            self.old = [MISSING for _ in range(nfiles)]
        self.res = [catalog.Resource(self.info, self.scratch, f"f{i}", symlink=symlink) for i in range(nfiles)]
        ms = ModelState(self.info.kind, self.old)
        for h in range(nfiles):
            ms.add_root(h, h)
        for st in steps:
            if "op" in st:
                ms.apply_op(st)
            elif "enter" in st:
                ms.enter(st)
            elif "exit" in st:
                ms.exit()
        self.new = [copy.deepcopy(x) for x in ms.logical]
        self.threading_off = False
        if not cfg.get("threading", True):
            for c in self.info.family_classes():
                c.disable_multithreading()
            self.threading_off = True
        self.reset_files()
        if mt_off_ctor:
            for c in self.info.family_classes():
                c.disable_multithreading()
        self.objs = [r.new_handle(write_concern=cfg["wc"]) for r in self.res]
        for o in self.objs:
            o()  # loaded, as in normal use
        if mt_off_ctor:
            for c in self.info.family_classes():
                c.enable_multithreading()
        if deepcopied:
            self.objs = [copy.deepcopy(o) for o in self.objs]

    def reset_files(self):
        for f in os.listdir(self.scratch):
            if f.startswith("._"):
                os.remove(os.path.join(self.scratch, f))
        for r, o in zip(self.res, self.old):
            if r.symlink:
                # a save may have replaced the link by a regular file: start every point from a link again
                for pth in (r.path, r.target):
                    try:
                        os.remove(pth)
                    except FileNotFoundError:
                        pass
                os.symlink(r.target, r.path)
            if o == MISSING:
                r.remove()
                continue
            with open(r.path, "wb") as f:
                f.write(json.dumps(o).encode())

    def action(self):
        stack = []
        for st in self.steps:
            if "op" in st:
                node = self.objs[st["h"]]
                for k in st["path"]:
                    node = node[k]
                out = model.run_sut(node, st["op"], [model.decode(a) for a in st["args"]])
                if out.kind == "exc":
                    raise out.exc
            elif "enter" in st:
                if st["enter"] == "obj":
                    cm = self.objs[st["h"]].buffered
                else:
                    cm = self.cls.buffer_backend(st["cap"]) if st.get("cap") is not None else self.cls.buffer_backend()
                cm.__enter__()
                stack.append(cm)
            elif "exit" in st:
                stack.pop().__exit__(None, None, None)

    def judge(self):
        """None if every file is wholly old or wholly new and opens; else a description."""
        for i, r in enumerate(self.res):
            got = r.probe()
            if got == MISSING and self.old[i] == MISSING:
                continue  # wholly old: the file did not exist before
            if got == MISSING:
                return f"file {i} vanished"
            if got == catalog.UNPARSABLE:
                return f"file {i} is not parsable JSON: {r.raw()[:80]!r}"
            if not ((self.old[i] != MISSING and model.strict_eq(got, self.old[i])) or model.strict_eq(got, self.new[i])):
                return f"file {i} holds {got!r}: neither the old nor the new content"
            try:
                fresh = r.new_handle(write_concern=self.cfg["wc"])
                v = fresh()
            except Exception as e:  # noqa: BLE001
                return f"a fresh object cannot open file {i}: {type(e).__name__}: {e}"
            if not model.strict_eq(v, got):
                return f"a fresh object reads {v!r} from file {i} holding {got!r}"
        return None

    def states(self):
        return tuple("new" if r.probe() != MISSING and model.strict_eq(r.probe(), n) else "old"
                     for r, n in zip(self.res, self.new))

    def close(self):
        if self.threading_off:
            for c in self.info.family_classes():
                c.enable_multithreading()
        catalog.reset_class_state(self.cls)
        shutil.rmtree(self.scratch, ignore_errors=True)


def _count_in_child(world):
    """Run the action in a child, counting library lines and fs events; returns (lines, events, ok)."""
    r, w = os.pipe()
    pid = os.fork()
    if pid == 0:
        os.close(r)
        try:
            from vf import fsmon

            cnt = inject.CountEvents()
            fsmon.arm(world.scratch, all_events=True)
            fsmon.set_interceptor(cnt)
            n = inject.count_lines(world.action)
            os.write(w, json.dumps([n, len(cnt.events), [e[0] for e in cnt.events]]).encode())
        except BaseException as e:  # noqa: BLE001
            os.write(w, json.dumps([-1, -1, [repr(e)]]).encode())
        finally:
            os._exit(0)
    os.close(w)
    data = b""
    while True:
        chunk = os.read(r, 65536)
        if not chunk:
            break
        data += chunk
    os.close(r)
    os.waitpid(pid, 0)
    return json.loads(data)


def sweep(world, tier, out, sig, sample):
    """All crash points of one world. Appends violations to out."""
    lines, nevents, evkinds = _count_in_child(world)
    if lines <= 0:
        out["violations"].append({"sig": {**sig, "kind": "action_failed"},
                                  "detail": f"the action itself failed in the fault-free child: {evkinds}",
                                  "case": sample})
        return
    j = world.judge()
    states_after = world.states()
    if j is not None or any(s != "new" for s in states_after):
        out["violations"].append({"sig": {**sig, "kind": "fault_free_mismatch"},
                                  "detail": f"after the fault-free action: {j or states_after}", "case": sample})
        return
    world.reset_files()
    points = [("line", k) for k in range(1, lines + 1)]
    points += [("before_event", jx) for jx in range(1, nevents + 1)]
    points += [("after_event", jx) for jx in range(1, nevents + 1)]
    maxblob = max(len(json.dumps(n)) for n in world.new) + 2
    if maxblob <= 300 or tier == "thorough":
        ns = list(range(0, maxblob + 1)) if maxblob <= 600 else sorted(set(list(range(0, 64)) + list(range(64, maxblob, 7)) + list(range(maxblob - 40, maxblob + 1))))
    else:
        ns = sorted(set(list(range(0, 40)) + list(range(40, maxblob, 13)) + list(range(maxblob - 20, maxblob + 1))))
    points += [("fsize", n) for n in ns]
    c = out["counters"]
    c["line_points"] = c.get("line_points", 0) + lines
    c["event_points"] = c.get("event_points", 0) + 2 * nevents
    c["byte_prefix_points"] = c.get("byte_prefix_points", 0) + len(ns)
    for ek in evkinds:
        c["fs_event:" + ek] = c.get("fs_event:" + ek, 0) + 1
    seen_states = set()
    for p in points:
        how, code = inject.run_in_child(world.scratch, world.action, p)
        out["evaluations"] += 1
        c["child_" + how] = c.get("child_" + how, 0) + 1
        if how in ("crashed", "signal"):
            out["killed"] += 1
        seen_states.add(world.states())
        v = world.judge()
        if how == "raised":
            v = v or None  # an exception (e.g. EFBIG) is not a crash; files are still judged
        if v is not None and len(out["violations"]) < 5:
            out["violations"].append({"sig": {**sig, "kind": "torn_file", "point": p[0]},
                                      "detail": f"crash point {p} ({how}): {v}", "case": {**sample, "point": list(p)}})
        world.reset_files()
    c["distinct_file_state_vectors"] = c.get("distinct_file_state_vectors", 0) + len(seen_states)
    return len(points)


def run_shard(spec):
    boot.boot()
    out = {"evaluations": 0, "keys": [], "violations": [], "samples": [], "counters": {}, "strata": {},
           "killed": 0}
    if spec["kind"] == "crash":
        name, cls, nfiles, steps = scenarios(spec["tier"])[spec["scenario"]]
        world = World(cls, spec["cfg"], nfiles, steps, missing=name == "first_write_missing_file",
                      symlink=name == "symlinked_file", deepcopied=name == "deepcopied_handle",
                      mt_off_ctor=name == "constructed_mt_off")
        sample = {"scenario": name, "cls": cls, "cfg": spec["cfg"], "files": nfiles, "steps": steps}
        try:
            sweep(world, spec["tier"], out, {"cls": cls, "scenario": name, "stratum": "atomic"}, sample)
        finally:
            world.close()
        st = out["strata"].setdefault("scenario:" + name, {"points": 0, "worlds": 0})
        st["points"] += out["evaluations"]
        st["worlds"] += 1
        out["samples"].append(sample)
        base = gen.case_key(sample)
        out["keys"] = [(base + i) & (2**63 - 1) for i in range(out["killed"])]
    elif spec["kind"] == "control":
        # negative control: the injector must tear files in the non-atomic mode
        torn = 0
        pts = 0
        for cls in ("JSONDict", "JSONList"):
            steps = scenarios(spec["tier"])[0][3] if cls == "JSONDict" else \
                [{"op": "extend", "h": 0, "path": [], "args": [[1, "two", {"three": 3}]]}]
            world = World(cls, NONATOMIC, 1, steps)
            try:
                maxblob = len(json.dumps(world.new[0]))
                for n in range(0, maxblob, 3):
                    how, _ = inject.run_in_child(world.scratch, world.action, ("fsize", n))
                    pts += 1
                    if world.judge() is not None:
                        torn += 1
                    world.reset_files()
            finally:
                world.close()
        out["evaluations"] = pts
        out["counters"]["control_points"] = pts
        out["counters"]["control_torn"] = torn
        out["keys"] = list(range(1, torn + 1))
    else:
        _unserializable(out, spec)
    del out["killed"]
    return out


def _unserializable(out, spec):
    """Content the encoder rejects must leave the existing file byte-identical, in any mode."""
    bigs = [("plain", lambda: 10 ** 5000), ("subclass", lambda: IntSub(10 ** 5000)),
            ("in_list", lambda: [1, [10 ** 5000]]), ("in_dict", lambda: {"x": {"y": 10 ** 5000}})]
    n = 0
    keys = []
    for cfg in ATOMIC_CFGS + [NONATOMIC]:
        for cls in ("JSONDict", "JSONList", "BufferedJSONDict", "MemoryBufferedJSONList", "JSONAttrDict"):
            info = catalog.info(cls)
            world = World(cls, cfg, 1, [])
            try:
                o = world.objs[0]
                if info.kind == "dict":
                    calls = [("setitem", lambda v: o.__setitem__("big", v)), ("update", lambda v: o.update(big=v)),
                             ("setdefault", lambda v: o.setdefault("big", v)),
                             ("reset", lambda v: o.reset({"big": v})),
                             ("nested_setitem", lambda v: o["n"].__setitem__("big", v)),
                             ("nested_append", lambda v: o["l"].append(v))]
                else:
                    calls = [("append", lambda v: o.append(v)), ("insert", lambda v: o.insert(0, v)),
                             ("extend", lambda v: o.extend([v])), ("iadd", lambda v: o.__iadd__([v])),
                             ("setitem", lambda v: o.__setitem__(0, v)), ("reset", lambda v: o.reset([v])),
                             ("nested_append", lambda v: o[2].append(v))]
                for cname, call in calls:
                    for bname, mk in bigs:
                        world.reset_files()
                        world.objs[0] = o = world.res[0].new_handle(write_concern=cfg["wc"])
                        o()
                        before = world.res[0].raw()
                        try:
                            call(mk())
                            raised = None
                        except Exception as e:  # noqa: BLE001
                            raised = e
                        after = world.res[0].raw()
                        n += 1
                        keys.append(gen.case_key([cls, cfg, cname, bname]))
                        if raised is None:
                            # accepted: then the file must hold valid, complete JSON
                            if world.res[0].probe() in (MISSING, catalog.UNPARSABLE):
                                out["violations"].append({
                                    "sig": {"cls": cls, "kind": "unserializable_damaged", "op": cname},
                                    "detail": f"{cname}({bname}) returned but the file is damaged: {after[:60]!r}",
                                    "case": {"cls": cls, "cfg": cfg, "op": cname, "value": bname}})
                        elif after != before:
                            out["violations"].append({
                                "sig": {"cls": cls, "kind": "unserializable_damaged", "op": cname},
                                "detail": f"{cname}({bname}) raised {type(raised).__name__} and the file changed: "
                                          f"{before[:50]!r} -> {(after or b'')[:50]!r}",
                                "case": {"cls": cls, "cfg": cfg, "op": cname, "value": bname}})
            finally:
                world.close()
    out["evaluations"] = n
    out["keys"] = keys
    out["counters"]["unserializable_cases"] = n
    out["samples"].append({"unserializable": "10**5000 via every mutator", "modes": 4})


def floors(tier, merged):
    c = merged["counters"]
    return [("children_killed_at_a_crash_point", c.get("child_crashed", 0) + c.get("child_signal", 0), 500),
            ("negative_control_torn_files", c.get("control_torn", 0), 5),
            ("unserializable_cases", c.get("unserializable_cases", 0), 100),
            ("byte_prefix_points", c.get("byte_prefix_points", 0), 100)]


def replay(case):
    """Re-run one recorded crash point (or unserialisable-content case)."""
    boot.boot()
    if "point" not in case:
        out = {"evaluations": 0, "keys": [], "violations": [], "samples": [], "counters": {}}
        _unserializable(out, {"tier": "quick", "seed": 0})
        return [v for v in out["violations"] if v["case"].get("op") == case.get("op") and v["case"].get("cls") == case.get("cls")]
    world = World(case["cls"], case["cfg"], case["files"], case["steps"],
                  missing=case.get("scenario") == "first_write_missing_file",
                  symlink=case.get("scenario") == "symlinked_file",
                  deepcopied=case.get("scenario") == "deepcopied_handle",
                  mt_off_ctor=case.get("scenario") == "constructed_mt_off")
    try:
        how, _ = inject.run_in_child(world.scratch, world.action, tuple(case["point"]))
        v = world.judge()
        return [{"detail": f"crash point {case['point']} ({how}): {v}"}] if v else []
    finally:
        world.close()
