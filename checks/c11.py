"""C11 - forbidden data never gets in, through any entry point at any depth."""
import copy
import decimal
import shutil

from vf import boot, catalog, gen, model
from vf.catalog import MISSING
from vf.session import make_scratch

PROPERTY = "C11"
LEVEL = "exploration"
RULE = ("grid: class (18) x entry point (constructor data=, item assignment, slice assignment, setdefault, "
        "update as mapping / pairs / kwargs / mixed, reset, append, extend, insert, +=; the public API of each "
        "class is also introspected and unknown public callables are reported) x target position (root, nested "
        "dict, nested list, dict in list, list in dict in list) x forbidden item kind (non-str keys of 5 types; "
        "10 non-JSON value types; for the attribute families keys containing a dot) x position of the item "
        "inside the argument (top, inside list / dict / tuple, depth 2-3, next to valid siblings). Every "
        "attempt must raise a TypeError or ValueError subclass; afterwards the in-memory tree (walked through "
        "_data, no loading API) and the resource (read without the library) must contain no forbidden item, "
        "and for single-element operations both must be unchanged. both tiers run the complete grid "
        "(exhaustive). Part threaded (E4, JSON classes, unbuffered and inside buffer_backend()): every single-item "
        "entry point is offered a forbidden item on a node while another thread performs an ordinary write on the "
        "same node or on the root, under the deterministic line-level scheduler (full delay sweep of both threads): "
        "in every schedule the call must raise TypeError/ValueError and neither memory nor file may hold the item. "
        "distinct = grid cell / (program, schedule); non-trivial = the entry point was reached "
        "with the forbidden item.")
ASSUMPTIONS = [
    "values outside {str,int,float,bool,None,Mapping,non-str Sequence} are 'not JSON-representable'; NaN/inf, "
    "numpy scalars and str-like sequences are not classified by the statement and not generated",
    "Zarr classes declare only require_string_key (pluggable codec): only non-str keys are asserted for them",
    "Redis/MongoDB/Zarr are in-process fakes",
]
SHARD_TIMEOUT = {"quick": 600, "thorough": 3600}

BAD_KEYS = ["intkey", "nonekey", "tuplekey", "floatkey", "boolkey"]
BAD_VALUES = ["set", "frozenset", "object", "complex", "function", "type", "decimal", "bytes_key_dict_value",
              "generator_obj", "module"]
DOT_KEYS = ["dotkey", "dotkey_only", "dotkey_end"]
# values that are themselves synced collections of a family with weaker rules (they may legally hold dotted
# keys); only meaningful for the attribute families
SYNCED_DOT = ["synced_dict_dotkey", "synced_list_dotkey", "synced_child_dotkey"]
SHAPES = ["top", "in_list", "in_dict", "in_tuple", "in_list_in_dict", "in_dict_in_list", "in_list_in_list", "deep3",
          "with_siblings"]

D_INIT = {"d": {"x": 1}, "l": [1, {"y": 2}, [3]], "ld": [{"dl": [0, {"z": 1}]}], "s": "v", "e": [], "ed": {}}
L_INIT = [{"x": 1}, [1, {"y": 2}], 5, [[{"w": 0}]], [], {}]
# targets include an *empty* nested list and an empty nested dict (bulk / first-fill paths)
D_TARGETS = [[], ["d"], ["l"], ["l", 1], ["ld", 0, "dl"], ["ld", 0, "dl", 1], ["e"], ["ed"]]
L_TARGETS = [[], [0], [1], [1, 1], [3, 0], [3, 0, 0], [4], [5]]
DICT_ENTRIES = ["setitem", "setdefault", "update_mapping", "update_pairs", "update_kwargs", "update_mixed", "reset",
                "update_over_container", "reset_over_container", "setitem_over_container",
                "update_over_empty", "reset_over_empty"]
LIST_ENTRIES = ["setitem", "slice", "append", "extend", "insert", "iadd", "reset", "extend_gen"]
SINGLE = {"setitem", "setdefault", "append", "insert", "update_kwargs", "setitem_over_container"}
KNOWN_PUBLIC = {
    "clear", "copy", "get", "items", "keys", "pop", "popitem", "reset", "setdefault", "update", "values",
    "append", "count", "extend", "index", "insert", "remove", "reverse", "is_base_type", "registry",
    "enable_multithreading", "disable_multithreading", "filename", "buffered", "buffer_backend",
    "backend_is_buffered", "get_buffer_capacity", "set_buffer_capacity", "get_current_buffer_size",
    "client", "key", "collection", "uid", "codec", "group", "name",
}


def make_item(kind, scratch=None):
    if kind in SYNCED_DOT:
        from synced_collections.backends.collection_json import JSONDict, JSONList
        import os
        import uuid

        fn = os.path.join(scratch, f"weak_{uuid.uuid4().hex}.json")
        if kind == "synced_dict_dotkey":
            o = JSONDict(fn)
            o["a.b"] = 1
            return o
        if kind == "synced_list_dotkey":
            o = JSONList(fn)
            o.append({"x.y": 1})
            return o
        o = JSONDict(fn)
        o["child"] = {"deep": [{"p.q": 2}]}
        return o["child"]
    if kind == "decimal":
        return decimal.Decimal("1.5")
    if kind == "bytes_key_dict_value":
        return {b"k": 1}
    if kind == "generator_obj":
        return (i for i in range(2))
    if kind == "module":
        return decimal
    return model.make_bad(kind)


def wrap(item, shape):
    if shape == "top":
        return item
    if shape == "in_list":
        return [1, item]
    if shape == "in_dict":
        return {"k": item}
    if shape == "in_tuple":
        return (item, 2)
    if shape == "in_list_in_dict":
        return {"k": ["a", item]}
    if shape == "in_dict_in_list":
        return [{"k": item}]
    if shape == "in_list_in_list":
        return [[item], 1]
    if shape == "deep3":
        return {"a": [{"b": [item]}]}
    if shape == "with_siblings":
        return {"ok1": 1, "k": item, "ok2": [2]}
    raise AssertionError(shape)


def forbidden_in(x, info, path=()):
    """First forbidden item found in a plain-or-synced tree (memory walk), else None."""
    from synced_collections import SyncedCollection

    if isinstance(x, SyncedCollection):
        x = x._data
    if isinstance(x, dict):
        for k, v in x.items():
            if not isinstance(k, str):
                return f"non-str key {k!r} at {list(path)}"
            if info.forbids_dot and "." in k:
                return f"dotted key {k!r} at {list(path)}"
            f = forbidden_in(v, info, path + (k,))
            if f:
                return f
        return None
    if isinstance(x, (list, tuple)):
        for i, v in enumerate(x):
            f = forbidden_in(v, info, path + (i,))
            if f:
                return f
        return None
    if x is None or isinstance(x, (bool, int, float, str)):
        return None
    if not info.forbids_nonjson:
        return None
    return f"non-JSON value {type(x).__name__} at {list(path)}"


def applicable(info, kind):
    if kind in BAD_KEYS:
        return True
    if kind in DOT_KEYS or kind in SYNCED_DOT:
        return info.forbids_dot
    return info.forbids_nonjson


def cells(info):
    targets = D_TARGETS if info.kind == "dict" else L_TARGETS
    init = D_INIT if info.kind == "dict" else L_INIT
    out = []
    for tpath in targets:
        t = init
        for k in tpath:
            t = t[k]
        entries = DICT_ENTRIES if isinstance(t, dict) else LIST_ENTRIES
        for entry in entries:
            for kind in BAD_KEYS + BAD_VALUES + DOT_KEYS + SYNCED_DOT:
                if not applicable(info, kind):
                    continue
                for shape in SHAPES:
                    out.append((tpath, entry, kind, shape))
    for kind in BAD_KEYS + BAD_VALUES + DOT_KEYS + SYNCED_DOT:
        if applicable(info, kind):
            for shape in SHAPES:
                out.append(([], "ctor", kind, shape))
    return out


E4_COMBOS = [("JSONDict", None), ("JSONList", None), ("JSONAttrDict", None), ("BufferedJSONList", "ctx"),
             ("MemoryBufferedJSONDict", "ctx"), ("JSONAttrList", None), ("BufferedJSONDict", None),
             ("MemoryBufferedJSONList", None)]
E4_BUDGET = {"quick": 25, "thorough": 400}


def threaded_progs(spec):
    """Part ``threaded``: one thread performs ordinary writes on a tree while another one offers it forbidden data
    through a single-item entry point (on the same node, on the root or on a child). The shared per-tree state
    (sync suspension counter, locks) must not decide whether validation happens."""
    info = catalog.info(spec["cls"])
    r = gen.rng_for(spec["seed"], "C11-threaded", spec["cls"], spec["mode"])
    init = copy.deepcopy(D_INIT if info.kind == "dict" else L_INIT)
    kinds = ["object", "intkey", "complex"] + (["dotkey"] if info.attr else [])
    targets = (D_TARGETS if info.kind == "dict" else L_TARGETS)[:4]
    progs = []
    for tpath in targets:
        t = init
        for k in tpath:
            t = t[k]
        for kind in kinds:
            bad = {"$bad": kind}
            if isinstance(t, dict):
                entries = [("setitem", ["newk", bad]), ("setdefault", ["newk", bad]),
                           ("update", ["mapping", {"newk": bad}, None]), ("update", ["kwargs", None, {"newk": bad}]),
                           ("update", ["pairs", [["newk", bad]], None]), ("reset", [{"newk": bad}])]
            else:
                entries = [("append", [bad]), ("insert", [0, bad]), ("extend", [[bad]]), ("iadd", [[bad]]),
                           ("setitem", [0, bad]), ("setitem", [{"$slice": [0, 1, None]}, [bad]]), ("reset", [[bad]])]
            for op, args in entries:
                # the ordinary writer works on the root or on the same node
                wpath = r.choice([[], tpath])
                w = init
                for k in wpath:
                    w = w[k]
                if isinstance(w, dict):
                    wstep = r.choice([{"op": "setitem", "args": ["good", 1]}, {"op": "update", "args": ["mapping", {"g1": 1, "g2": [2]}, None]},
                                      {"op": "reset", "args": [{"g": {"h": 1}}]}])
                else:
                    wstep = r.choice([{"op": "append", "args": ["good"]}, {"op": "extend", "args": [["g1", ["g2"]]]},
                                      {"op": "reset", "args": [["g", ["h"]]]}, {"op": "setitem", "args": [0, "good"]}])
                if wstep["op"] == "reset" and wpath != tpath:
                    wstep = {"op": "setitem", "args": ["good", 1]} if isinstance(w, dict) else {"op": "append", "args": ["good"]}
                prog = {"cls": info.name, "init": copy.deepcopy(init), "roots": [[0, 0]],
                        "pre": [{"retain": 10, "h": 0, "path": list(tpath)}, {"retain": 11, "h": 0, "path": list(wpath)}],
                        "threads": [[{**wstep, "h": 11, "path": []}], [{"op": op, "h": 10, "path": [], "args": args}]]}
                if spec["mode"] == "ctx":
                    prog["buffered"] = {"cap": None}
                progs.append((prog, {"entry": op, "item": kind, "target_depth": len(tpath)}))
    r.shuffle(progs)
    if spec["tier"] == "quick":
        # one program per (entry point, call form); target, item kind and writer vary with the seed
        seen, sub = set(), []
        for prog, meta in progs:
            st = prog["threads"][1][0]
            k = (st["op"], str(st["args"][0])[:8])
            if k not in seen:
                seen.add(k)
                sub.append((prog, meta))
        progs = sub
    return progs, r


def run_threaded(spec):
    import time

    from vf import conc

    boot.boot(lock_shim=True)
    info = catalog.info(spec["cls"])
    t0 = conc.clock()
    out = {"evaluations": 0, "keys": [], "violations": [], "samples": [], "counters": {}, "strata": {}}
    c = out["counters"]
    keys = set()
    progs, r = threaded_progs(spec)
    mine = [p for i, p in enumerate(progs) if i % spec["pieces"] == spec["piece"]]
    for prog, meta in mine:
        if conc.clock() - t0 > E4_BUDGET[spec["tier"]]:
            c["threaded_programs_cut_by_budget"] = c.get("threaded_programs_cut_by_budget", 0) + 1
            continue
        runner = conc.ProgramRunner(prog)

        def verdict(prog_, res, ops, final, extra, _runner=runner):
            for o in ops:
                if o["t"] != 1:
                    if o["out"] is not None and o["out"].kind == "exc":
                        return None  # the ordinary writer failed: the interleaving itself is C13/C14's business
                    continue
                if o["out"] is None:
                    return None
                if o["out"].kind != "exc":
                    return ("accepted", f"{o['step']['op']} with a forbidden item returned normally next to a writer")
                if not isinstance(o["out"].exc, (TypeError, ValueError)):
                    return ("wrong_exception", f"raised {o['out'].brief()}")
            mem = forbidden_in(_runner.objs[0], info)
            if mem:
                return ("in_memory", f"rejected but memory holds {mem}")
            got = final[0]
            if got not in (MISSING, catalog.UNPARSABLE):
                f = forbidden_in(got, info)
                if f:
                    return ("in_resource", f"rejected but the resource holds {f}")
                if _contains_key(got, "newk"):
                    return ("in_resource", f"rejected but the resource holds the item's key: {got!r}"[:300])
            return None

        try:
            res = conc.explore(prog, runner, r, spec["tier"],
                               {"cls": info.name, "family": info.family, "part": "threaded", **meta,
                                "mode": spec["mode"] or "unbuffered"},
                               policies=("sweep",) if spec["tier"] == "quick" else ("sweep", "boundary", "two_delay"),
                               deadline=t0 + E4_BUDGET[spec["tier"]] * 1.5, verdict=verdict)
        finally:
            runner.close()
        out["evaluations"] += res["runs"]
        pk = gen.case_key(prog)
        for s_ in res["schedules"]:
            keys.add((pk ^ s_) & (2**63 - 1))
        c["threaded_runs"] = c.get("threaded_runs", 0) + res["runs"]
        c["threaded_interleaved_runs"] = c.get("threaded_interleaved_runs", 0) + res["interleaved_runs"]
        c["threaded_programs"] = c.get("threaded_programs", 0) + 1
        if res["inconclusive"]:
            c["inconclusive_runs"] = c.get("inconclusive_runs", 0) + len(res["inconclusive"])
        st = out["strata"].setdefault("threaded:" + info.family, {"programs": 0, "runs": 0, "violations": 0})
        st["programs"] += 1
        st["runs"] += res["runs"]
        keep = [v for v in res["violations"] if v["sig"]["kind"] in ("accepted", "wrong_exception", "in_memory", "in_resource")]
        st["violations"] += 1 if keep else 0
        out["violations"].extend(keep[:1])
    out["keys"] = sorted(keys)
    return out


def _contains_key(x, key):
    if isinstance(x, dict):
        return key in x or any(_contains_key(v, key) for v in x.values())
    if isinstance(x, list):
        return any(_contains_key(v, key) for v in x)
    return False


def plan(tier, seed):
    specs = []
    for cname, mode in E4_COMBOS:
        pieces = 2 if tier == "quick" else 8
        for pi in range(pieces):
            specs.append({"part": "threaded", "cls": cname, "mode": mode, "tier": tier, "seed": seed,
                          "piece": pi, "pieces": pieces})
    for c in catalog.CLASSES:
        n = len(cells(c))
        pieces = 1 if tier == "quick" else 2
        for pi in range(pieces):
            specs.append({"cls": c.name, "tier": tier, "seed": seed, "piece": pi, "pieces": pieces, "ncells": n})
    return specs


def attempt(info, cell):
    """Run one grid cell. Returns (violation or None, reached)."""
    tpath, entry, kind, shape = cell
    scratch = make_scratch()
    try:
        res = catalog.Resource(info, scratch, "a")
        init = copy.deepcopy(D_INIT if info.kind == "dict" else L_INIT)
        item = make_item(kind, scratch)
        val = wrap(item, shape)
        sig = {"cls": info.name, "family": info.family, "entry": entry, "item": kind, "shape": shape,
               "target_depth": len(tpath)}
        case = {"cls": info.name, "cell": [tpath, entry, kind, shape]}

        def V(k, detail):
            return {"sig": {**sig, "kind": k}, "detail": f"{info.name} {entry} at {tpath} with {kind}/{shape}: {detail}",
                    "case": case}

        if entry == "ctor":
            data = {"k": val} if info.kind == "dict" else [val]
            if kind in BAD_KEYS + DOT_KEYS and shape == "top" and info.kind == "dict":
                data = val  # the forbidden-key dict itself is the data
            try:
                obj = res.new_handle(data=data)
            except Exception as e:  # noqa: BLE001
                if not isinstance(e, (TypeError, ValueError)):
                    return V("wrong_exception", f"raised {type(e).__name__}: {e}"), True
                return None, True
            f = forbidden_in(obj, info)
            return V("accepted", f"constructor accepted the data; memory holds {f or 'it'}"), True
        res.outside_write(init, bump=False)
        root = res.new_handle()
        node = root
        for k in tpath:
            node = node[k]
        root()  # make sure the in-memory tree is loaded before the snapshot
        mem_before = model.to_plain(root)
        res_before = res.probe()
        try:
            if entry == "setitem":
                if isinstance(node._data, dict):
                    if kind in BAD_KEYS and shape == "top":
                        (bk, bv), = item.items()
                        node[bk] = bv  # the bad key used directly as the item key
                    elif kind in DOT_KEYS and shape == "top":
                        (bk, bv), = item.items()
                        node[bk] = bv
                    else:
                        node["newk"] = val
                else:
                    node[0] = val
            elif entry == "slice":
                node[0:1] = [val]
            elif entry == "setdefault":
                if kind in BAD_KEYS + DOT_KEYS and shape == "top":
                    (bk, bv), = item.items()
                    node.setdefault(bk, bv)
                else:
                    node.setdefault("newk", val)
            elif entry == "update_mapping":
                node.update(val if (kind in BAD_KEYS + DOT_KEYS and shape == "top") else {"newk": val})
            elif entry == "update_pairs":
                if kind in BAD_KEYS + DOT_KEYS and shape == "top":
                    node.update(list(item.items()))
                else:
                    node.update([("newk", val)])
            elif entry == "update_kwargs":
                if kind in DOT_KEYS and shape == "top":
                    node.update(**item)
                else:
                    node.update(newk=val)
            elif entry == "update_mixed":
                node.update({"ok": 1}, newk=val)
            elif entry in ("update_over_container", "reset_over_container", "setitem_over_container",
                           "update_over_empty", "reset_over_empty"):
                # the position already holds a nested dict or list (the merge first tries an in-place update of it);
                # *_over_empty: it holds an empty list (the merge fills it in one go)
                held = [k for k, v in node._data.items() if not isinstance(v, (str, int, float, bool, type(None)))]
                if entry.endswith("_over_empty"):
                    held = [k for k in held if isinstance(getattr(node._data[k], "_data", None), list)
                            and not node._data[k]._data]
                    if shape == "top" and not isinstance(val, (list, tuple)):
                        val = [val]  # the filling value must be a sequence
                if not held:
                    return None, False
                k0 = held[0]
                if entry in ("update_over_container", "update_over_empty"):
                    node.update({k0: val})
                elif entry in ("reset_over_container", "reset_over_empty"):
                    node.reset({k0: val})
                else:
                    node[k0] = val
            elif entry == "reset":
                if isinstance(node._data, dict):
                    node.reset(val if (kind in BAD_KEYS + DOT_KEYS and shape == "top") else {"newk": val, "d": {"x": 1}})
                else:
                    node.reset([1, val])
            elif entry == "append":
                node.append(val)
            elif entry == "extend":
                node.extend([1, val])
            elif entry == "extend_gen":
                node.extend(x for x in [val, 2])
            elif entry == "insert":
                node.insert(0, val)
            elif entry == "iadd":
                node += [val]
            exc = None
        except Exception as e:  # noqa: BLE001
            exc = e
        mem = forbidden_in(root, info)
        got = res.probe()
        in_res = None if got in (MISSING, catalog.UNPARSABLE) else forbidden_in(got, info)
        changed = (model.compare(model.to_plain(root), mem_before) != "ok") or \
                  (got != res_before and model.compare(got, res_before) != "ok")
        if exc is None:
            return V("accepted", f"no exception; memory: {mem}; resource: {in_res}; resource now {got!r}"[:500]), True
        if not isinstance(exc, (TypeError, ValueError)):
            return V("wrong_exception", f"raised {type(exc).__name__}: {exc}"), True
        if mem:
            return V("in_memory", f"rejected with {type(exc).__name__} but memory holds {mem}"), True
        if in_res:
            return V("in_resource", f"rejected with {type(exc).__name__} but the resource holds {in_res}"), True
        if entry in SINGLE and changed:
            return V("changed_by_rejected_single_op",
                     f"rejected with {type(exc).__name__} but content changed: {mem_before!r} -> "
                     f"{model.to_plain(root)!r} / resource {res_before!r} -> {got!r}"[:600]), True
        return None, True
    finally:
        shutil.rmtree(scratch, ignore_errors=True)


def run_shard(spec):
    if spec.get("part") == "threaded":
        return run_threaded(spec)
    boot.boot()
    info = catalog.info(spec["cls"])
    out = {"evaluations": 0, "keys": [], "violations": [], "samples": [], "counters": {}, "strata": {}}
    allc = cells(info)
    r = gen.rng_for(spec["seed"], "C11", spec["cls"])
    mine = [c for i, c in enumerate(allc) if i % spec["pieces"] == spec["piece"]]
    keys = set()
    for cell in mine:
        v, reached = attempt(info, cell)
        out["evaluations"] += 1
        out["counters"]["entry:" + cell[1]] = out["counters"].get("entry:" + cell[1], 0) + 1
        if reached:
            keys.add(gen.case_key([info.name, cell]))
        if v is not None and len(out["violations"]) < 25:
            out["violations"].append(v)
        st = out["strata"].setdefault("family:" + info.family, {"cells": 0, "violations": 0})
        st["cells"] += 1
        st["violations"] += 1 if v else 0
    cls = info.cls()
    unknown = sorted(n for n in dir(cls) if not n.startswith("_") and n not in KNOWN_PUBLIC)
    out["counters"]["unknown_public_api:" + info.name] = unknown
    out["counters"]["grid_cells_total"] = len(allc) if spec.get("piece", 0) == 0 else 0
    out["samples"].append({"cls": info.name, "cell": [list(mine[0][0]), *mine[0][1:]]})
    out["keys"] = sorted(keys)
    return out


def floors(tier, merged):
    return [("grid_cells_run", merged["evaluations"], 5000)]


def extra_coverage(tier, merged):
    return {"exhaustive": True, "grid_cells_total": merged["counters"].get("grid_cells_total", 0)}


def replay(case):
    if "prog" in case:
        return []  # threaded part: re-run the check (programs are enumerated, schedules deterministic)
    boot.boot()
    info = catalog.info(case["cls"])
    t, e, k, s = case["cell"]
    v, _ = attempt(info, (t, e, k, s))
    return [v] if v else []
