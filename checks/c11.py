"""C11 - forbidden data never gets in, through any entry point at any depth."""
import copy
import decimal
import shutil

from vf import boot, catalog, gen, model
from vf.catalog import MISSING
from vf.session import make_scratch

PROPERTY = "C11"
LEVEL = "exploration"
RULE = ("grid: class (18) x entry point (constructor data=, item assignment, slice assignment, setdefault, "
        "update as mapping / pairs / kwargs / mixed, reset, append, extend, insert, +=; the public API of each "
        "class is also introspected and unknown public callables are reported) x target position (root, nested "
        "dict, nested list, dict in list, list in dict in list) x forbidden item kind (non-str keys of 5 types; "
        "10 non-JSON value types; for the attribute families keys containing a dot) x position of the item "
        "inside the argument (top, inside list / dict / tuple, depth 2-3, next to valid siblings). Every "
        "attempt must raise a TypeError or ValueError subclass; afterwards the in-memory tree (walked through "
        "_data, no loading API) and the resource (read without the library) must contain no forbidden item, "
        "and for single-element operations both must be unchanged. both tiers run the complete grid "
        "(exhaustive). distinct = grid cell; non-trivial = the entry point was reached "
        "with the forbidden item.")
ASSUMPTIONS = [
    "values outside {str,int,float,bool,None,Mapping,non-str Sequence} are 'not JSON-representable'; NaN/inf, "
    "numpy scalars and str-like sequences are not classified by the statement and not generated",
    "Zarr classes declare only require_string_key (pluggable codec): only non-str keys are asserted for them",
    "Redis/MongoDB/Zarr are in-process fakes",
]
SHARD_TIMEOUT = {"quick": 600, "thorough": 3600}

BAD_KEYS = ["intkey", "nonekey", "tuplekey", "floatkey", "boolkey"]
BAD_VALUES = ["set", "frozenset", "object", "complex", "function", "type", "decimal", "bytes_key_dict_value",
              "generator_obj", "module"]
DOT_KEYS = ["dotkey", "dotkey_only", "dotkey_end"]
# values that are themselves synced collections of a family with weaker rules (they may legally hold dotted
# keys); only meaningful for the attribute families
SYNCED_DOT = ["synced_dict_dotkey", "synced_list_dotkey", "synced_child_dotkey"]
SHAPES = ["top", "in_list", "in_dict", "in_tuple", "in_list_in_dict", "in_dict_in_list", "in_list_in_list", "deep3",
          "with_siblings"]

D_INIT = {"d": {"x": 1}, "l": [1, {"y": 2}, [3]], "ld": [{"dl": [0, {"z": 1}]}], "s": "v"}
L_INIT = [{"x": 1}, [1, {"y": 2}], 5, [[{"w": 0}]]]
D_TARGETS = [[], ["d"], ["l"], ["l", 1], ["ld", 0, "dl"], ["ld", 0, "dl", 1]]
L_TARGETS = [[], [0], [1], [1, 1], [3, 0], [3, 0, 0]]
DICT_ENTRIES = ["setitem", "setdefault", "update_mapping", "update_pairs", "update_kwargs", "update_mixed", "reset",
                "update_over_container", "reset_over_container", "setitem_over_container"]
LIST_ENTRIES = ["setitem", "slice", "append", "extend", "insert", "iadd", "reset", "extend_gen"]
SINGLE = {"setitem", "setdefault", "append", "insert", "update_kwargs"}
KNOWN_PUBLIC = {
    "clear", "copy", "get", "items", "keys", "pop", "popitem", "reset", "setdefault", "update", "values",
    "append", "count", "extend", "index", "insert", "remove", "reverse", "is_base_type", "registry",
    "enable_multithreading", "disable_multithreading", "filename", "buffered", "buffer_backend",
    "backend_is_buffered", "get_buffer_capacity", "set_buffer_capacity", "get_current_buffer_size",
    "client", "key", "collection", "uid", "codec", "group", "name",
}


def make_item(kind, scratch=None):
    if kind in SYNCED_DOT:
        from synced_collections.backends.collection_json import JSONDict, JSONList
        import os
        import uuid

        fn = os.path.join(scratch, f"weak_{uuid.uuid4().hex}.json")
        if kind == "synced_dict_dotkey":
            o = JSONDict(fn)
            o["a.b"] = 1
            return o
        if kind == "synced_list_dotkey":
            o = JSONList(fn)
            o.append({"x.y": 1})
            return o
        o = JSONDict(fn)
        o["child"] = {"deep": [{"p.q": 2}]}
        return o["child"]
    if kind == "decimal":
        return decimal.Decimal("1.5")
    if kind == "bytes_key_dict_value":
        return {b"k": 1}
    if kind == "generator_obj":
        return (i for i in range(2))
    if kind == "module":
        return decimal
    return model.make_bad(kind)


def wrap(item, shape):
    if shape == "top":
        return item
    if shape == "in_list":
        return [1, item]
    if shape == "in_dict":
        return {"k": item}
    if shape == "in_tuple":
        return (item, 2)
    if shape == "in_list_in_dict":
        return {"k": ["a", item]}
    if shape == "in_dict_in_list":
        return [{"k": item}]
    if shape == "in_list_in_list":
        return [[item], 1]
    if shape == "deep3":
        return {"a": [{"b": [item]}]}
    if shape == "with_siblings":
        return {"ok1": 1, "k": item, "ok2": [2]}
    raise AssertionError(shape)


def forbidden_in(x, info, path=()):
    """First forbidden item found in a plain-or-synced tree (memory walk), else None."""
    from synced_collections import SyncedCollection

    if isinstance(x, SyncedCollection):
        x = x._data
    if isinstance(x, dict):
        for k, v in x.items():
            if not isinstance(k, str):
                return f"non-str key {k!r} at {list(path)}"
            if info.forbids_dot and "." in k:
                return f"dotted key {k!r} at {list(path)}"
            f = forbidden_in(v, info, path + (k,))
            if f:
                return f
        return None
    if isinstance(x, (list, tuple)):
        for i, v in enumerate(x):
            f = forbidden_in(v, info, path + (i,))
            if f:
                return f
        return None
    if x is None or isinstance(x, (bool, int, float, str)):
        return None
    if not info.forbids_nonjson:
        return None
    return f"non-JSON value {type(x).__name__} at {list(path)}"


def applicable(info, kind):
    if kind in BAD_KEYS:
        return True
    if kind in DOT_KEYS or kind in SYNCED_DOT:
        return info.forbids_dot
    return info.forbids_nonjson


def cells(info):
    targets = D_TARGETS if info.kind == "dict" else L_TARGETS
    init = D_INIT if info.kind == "dict" else L_INIT
    out = []
    for tpath in targets:
        t = init
        for k in tpath:
            t = t[k]
        entries = DICT_ENTRIES if isinstance(t, dict) else LIST_ENTRIES
        for entry in entries:
            for kind in BAD_KEYS + BAD_VALUES + DOT_KEYS + SYNCED_DOT:
                if not applicable(info, kind):
                    continue
                for shape in SHAPES:
                    out.append((tpath, entry, kind, shape))
    for kind in BAD_KEYS + BAD_VALUES + DOT_KEYS + SYNCED_DOT:
        if applicable(info, kind):
            for shape in SHAPES:
                out.append(([], "ctor", kind, shape))
    return out


def plan(tier, seed):
    specs = []
    for c in catalog.CLASSES:
        n = len(cells(c))
        pieces = 1 if tier == "quick" else 2
        for pi in range(pieces):
            specs.append({"cls": c.name, "tier": tier, "seed": seed, "piece": pi, "pieces": pieces, "ncells": n})
    return specs


def attempt(info, cell):
    """Run one grid cell. Returns (violation or None, reached)."""
    tpath, entry, kind, shape = cell
    scratch = make_scratch()
    try:
        res = catalog.Resource(info, scratch, "a")
        init = copy.deepcopy(D_INIT if info.kind == "dict" else L_INIT)
        item = make_item(kind, scratch)
        val = wrap(item, shape)
        sig = {"cls": info.name, "family": info.family, "entry": entry, "item": kind, "shape": shape,
               "target_depth": len(tpath)}
        case = {"cls": info.name, "cell": [tpath, entry, kind, shape]}

        def V(k, detail):
            return {"sig": {**sig, "kind": k}, "detail": f"{info.name} {entry} at {tpath} with {kind}/{shape}: {detail}",
                    "case": case}

        if entry == "ctor":
            data = {"k": val} if info.kind == "dict" else [val]
            if kind in BAD_KEYS + DOT_KEYS and shape == "top" and info.kind == "dict":
                data = val  # the forbidden-key dict itself is the data
            try:
                obj = res.new_handle(data=data)
            except Exception as e:  # noqa: BLE001
                if not isinstance(e, (TypeError, ValueError)):
                    return V("wrong_exception", f"raised {type(e).__name__}: {e}"), True
                return None, True
            f = forbidden_in(obj, info)
            return V("accepted", f"constructor accepted the data; memory holds {f or 'it'}"), True
        res.outside_write(init, bump=False)
        root = res.new_handle()
        node = root
        for k in tpath:
            node = node[k]
        root()  # make sure the in-memory tree is loaded before the snapshot
        mem_before = model.to_plain(root)
        res_before = res.probe()
        try:
            if entry == "setitem":
                if isinstance(node._data, dict):
                    if kind in BAD_KEYS and shape == "top":
                        (bk, bv), = item.items()
                        node[bk] = bv  # the bad key used directly as the item key
                    elif kind in DOT_KEYS and shape == "top":
                        (bk, bv), = item.items()
                        node[bk] = bv
                    else:
                        node["newk"] = val
                else:
                    node[0] = val
            elif entry == "slice":
                node[0:1] = [val]
            elif entry == "setdefault":
                if kind in BAD_KEYS + DOT_KEYS and shape == "top":
                    (bk, bv), = item.items()
                    node.setdefault(bk, bv)
                else:
                    node.setdefault("newk", val)
            elif entry == "update_mapping":
                node.update(val if (kind in BAD_KEYS + DOT_KEYS and shape == "top") else {"newk": val})
            elif entry == "update_pairs":
                if kind in BAD_KEYS + DOT_KEYS and shape == "top":
                    node.update(list(item.items()))
                else:
                    node.update([("newk", val)])
            elif entry == "update_kwargs":
                if kind in DOT_KEYS and shape == "top":
                    node.update(**item)
                else:
                    node.update(newk=val)
            elif entry == "update_mixed":
                node.update({"ok": 1}, newk=val)
            elif entry in ("update_over_container", "reset_over_container", "setitem_over_container"):
                # the position already holds a nested dict or list (the merge first tries an in-place update of it)
                held = [k for k, v in node._data.items() if not isinstance(v, (str, int, float, bool, type(None)))]
                if not held:
                    return None, False
                k0 = held[0]
                if entry == "update_over_container":
                    node.update({k0: val})
                elif entry == "reset_over_container":
                    node.reset({k0: val})
                else:
                    node[k0] = val
            elif entry == "reset":
                if isinstance(node._data, dict):
                    node.reset(val if (kind in BAD_KEYS + DOT_KEYS and shape == "top") else {"newk": val, "d": {"x": 1}})
                else:
                    node.reset([1, val])
            elif entry == "append":
                node.append(val)
            elif entry == "extend":
                node.extend([1, val])
            elif entry == "extend_gen":
                node.extend(x for x in [val, 2])
            elif entry == "insert":
                node.insert(0, val)
            elif entry == "iadd":
                node += [val]
            exc = None
        except Exception as e:  # noqa: BLE001
            exc = e
        mem = forbidden_in(root, info)
        got = res.probe()
        in_res = None if got in (MISSING, catalog.UNPARSABLE) else forbidden_in(got, info)
        changed = (model.compare(model.to_plain(root), mem_before) != "ok") or \
                  (got != res_before and model.compare(got, res_before) != "ok")
        if exc is None:
            return V("accepted", f"no exception; memory: {mem}; resource: {in_res}; resource now {got!r}"[:500]), True
        if not isinstance(exc, (TypeError, ValueError)):
            return V("wrong_exception", f"raised {type(exc).__name__}: {exc}"), True
        if mem:
            return V("in_memory", f"rejected with {type(exc).__name__} but memory holds {mem}"), True
        if in_res:
            return V("in_resource", f"rejected with {type(exc).__name__} but the resource holds {in_res}"), True
        if entry in SINGLE and changed:
            return V("changed_by_rejected_single_op",
                     f"rejected with {type(exc).__name__} but content changed: {mem_before!r} -> "
                     f"{model.to_plain(root)!r} / resource {res_before!r} -> {got!r}"[:600]), True
        return None, True
    finally:
        shutil.rmtree(scratch, ignore_errors=True)


def run_shard(spec):
    boot.boot()
    info = catalog.info(spec["cls"])
    out = {"evaluations": 0, "keys": [], "violations": [], "samples": [], "counters": {}, "strata": {}}
    allc = cells(info)
    r = gen.rng_for(spec["seed"], "C11", spec["cls"])
    mine = [c for i, c in enumerate(allc) if i % spec["pieces"] == spec["piece"]]
    keys = set()
    for cell in mine:
        v, reached = attempt(info, cell)
        out["evaluations"] += 1
        out["counters"]["entry:" + cell[1]] = out["counters"].get("entry:" + cell[1], 0) + 1
        if reached:
            keys.add(gen.case_key([info.name, cell]))
        if v is not None and len(out["violations"]) < 25:
            out["violations"].append(v)
        st = out["strata"].setdefault("family:" + info.family, {"cells": 0, "violations": 0})
        st["cells"] += 1
        st["violations"] += 1 if v else 0
    cls = info.cls()
    unknown = sorted(n for n in dir(cls) if not n.startswith("_") and n not in KNOWN_PUBLIC)
    out["counters"]["unknown_public_api:" + info.name] = unknown
    out["counters"]["grid_cells_total"] = len(allc) if spec.get("piece", 0) == 0 else 0
    out["samples"].append({"cls": info.name, "cell": [list(mine[0][0]), *mine[0][1:]]})
    out["keys"] = sorted(keys)
    return out


def floors(tier, merged):
    return [("grid_cells_run", merged["evaluations"], 5000)]


def extra_coverage(tier, merged):
    return {"exhaustive": True, "grid_cells_total": merged["counters"].get("grid_cells_total", 0)}


def replay(case):
    boot.boot()
    info = catalog.info(case["cls"])
    t, e, k, s = case["cell"]
    v, _ = attempt(info, (t, e, k, s))
    return [v] if v else []
