"""C17 - reading never writes."""
import os

from vf import catalog, e1, fsmon, gen
from vf.catalog import MISSING
from vf.session import ModelState, Session, StopCase

from . import common

PROPERTY = "C17"
LEVEL = "exploration"
RULE = ("programs consisting only of read operations (item access, get, len, iteration, membership, == / != and "
        "ordering comparisons with plain and synced operands, repr/str, (), keys/values/items, reversed, "
        "index, count, navigation to nested children) on roots and retained children, interleaved with "
        "arbitrary well-nested obj.buffered / buffer_backend() entries and exits, on existing and on missing "
        "resources (also: a file that someone else removes while the program is inside a buffered context that has "
        "read it), for all 18 classes. Oracles: the audit-hook monitor records no write-class event (open for "
        "writing, rename/replace, remove, truncate, mkdir, utime ...) anywhere in the case's directory; the "
        "file's (inode, size, mtime_ns, sha256) is unchanged; a missing resource is still missing; the fake "
        "stores' write counters did not move. Results are also compared with the model. Part next_to_writer (E4): "
        "the reads of one thread run next to 1-2 writer threads (same object, child of the writer's object, own "
        "object on the writer's file; unbuffered and inside buffer_backend() of both strategies) under the "
        "deterministic line-level scheduler; every write-class file-system event is attributed, in the thread "
        "that performs it, to the client call in progress - none may belong to a read. distinct = case "
        "hash; non-trivial = >= 5 reads executed (and for buffered classes >= 1 context entered).")
ASSUMPTIONS = ["Redis/MongoDB/Zarr: write detection = write-call counters of the in-process fakes"]
STRATA = ["existing", "missing"]
PER = {"quick": {"existing": 300, "missing": 100}, "thorough": {"existing": 1500, "missing": 500}}


E4_COMBOS = [("JSONDict", None), ("JSONList", None), ("BufferedJSONDict", "ctx"), ("MemoryBufferedJSONDict", "ctx"),
             ("BufferedJSONList", None), ("MemoryBufferedJSONList", "ctx"), ("JSONAttrDict", None),
             ("BufferedJSONDict", None)]
E4_PROGRAMS = {"quick": 8, "thorough": 150}
E4_BUDGET = {"quick": 14, "thorough": 500}
SHARD_TIMEOUT = {"quick": 600, "thorough": 5400}


def plan(tier, seed):
    specs = common.plan_grid(tier, seed, common.class_cfgs(all_cfgs=False), PER, STRATA, pieces=4)
    # part "next_to_writer": the reads of one thread run next to a writer thread (same object, a child of the
    # writer's object, or an own object on the writer's file) under the deterministic scheduler
    for cname, mode in E4_COMBOS:
        specs.append({"part": "next_to_writer", "cls": cname, "mode": mode, "seed": seed, "tier": tier,
                      "start": 0, "count": E4_PROGRAMS[tier]})
        # directed grid: every read operation on the writer's own object (and on a child of it) next to a writer
        # that resizes the container being read
        for piece in range(2 if tier == "quick" else 6):
            specs.append({"part": "next_to_writer", "directed": True, "cls": cname, "mode": mode, "seed": seed,
                          "tier": tier, "start": 0, "count": 0, "piece": piece, "pieces": 2 if tier == "quick" else 6})
    return specs


def make_case(spec, i):
    info = catalog.info(spec["cls"])
    r = gen.rng_for(spec["seed"], "C17", spec["cls"], spec["stratum"], i)
    g = gen.G(r, attr=info.attr)
    nres = r.choice([1, 1, 2]) if info.buffered else 1
    inits = [MISSING if spec["stratum"] == "missing" else g.shape(info.kind, 3) for _ in range(nres)]
    ms = ModelState(info.kind, inits)
    roots = [[h, h] for h in range(nres)]
    for h, res in roots:
        ms.add_root(h, res)
    setup = {}
    vanish = False
    x0 = r.random()
    if spec["stratum"] == "missing" and x0 < 0.3:
        # the object was constructed with data= on a resource that does not exist
        data = g.shape(info.kind, 2)
        setup["root_data"] = {"0": data}
        ms.logical[0] = data
    elif spec["stratum"] == "missing" and x0 < 0.6 and info.backend == "json":
        # the file existed, was loaded, and has been deleted since: the object still holds its content
        content = g.shape(info.kind, 2)
        inits[0] = content
        ms = ModelState(info.kind, inits)
        for h, res in roots:
            ms.add_root(h, res)
        setup["pre"] = [{"op": "call", "h": 0, "path": [], "args": []}, {"delete": 0}]
        ms.truth[0] = MISSING
    elif spec["stratum"] == "existing" and x0 < 0.35:
        # the handle has seen the content once; afterwards the file was rewritten with the same data in
        # another key order (and the handle made an earlier write of its own)
        pre = [{"op": "call", "h": 0, "path": [], "args": []}]
        if r.random() < 0.5:
            pre += gen.gen_program(g, ms, 2, p_read=0.0, depth=2, handles=[0])
        pre.append({"reorder": 0})
        setup["pre"] = pre
    elif spec["stratum"] == "existing" and info.buffered and x0 < 0.55:
        # an earlier buffered block of the program modified the collection and its flush *failed* with an I/O error
        # that was reported to the caller; the file still holds the old content. Nothing of that block may be
        # written by the read-only program that follows (through the same handle or a fresh one).
        import copy as _copy

        snap = _copy.deepcopy(ms)
        muts = gen.gen_program(g, snap, r.choice([1, 2]), p_read=0.0, depth=2, handles=[0])
        setup["pre"] = [{"failed_flush": 0, "ctx": r.choice(["obj", "backend"]), "steps": muts}]
        if r.random() < 0.6:
            roots.append([nres, 0])
            ms.add_root(nres, 0)
    elif spec["stratum"] == "existing" and info.buffered and info.backend == "json" and x0 < 0.72:
        # someone else removes the file while the program is inside a buffered context that has read it
        vanish = True
    elif r.random() < 0.4:
        roots.append([nres, 0])  # a second object on the first resource
        ms.add_root(nres, 0)
    next_id = len(roots)
    steps = []
    depth = 0
    reads_in_ctx = 0
    n = 30 if spec["tier"] == "quick" else 45
    while len(steps) < n:
        x = r.random()
        if info.buffered and x < 0.15 and depth < 4:
            st = {"enter": "obj", "h": r.randrange(len(roots))} if r.random() < 0.5 else {"enter": "backend", "cap": None}
            steps.append(st)
            ms.enter(st)
            depth += 1
            continue
        if info.buffered and x < 0.28 and depth > 0:
            steps.append({"exit": 1})
            ms.exit()
            depth -= 1
            if depth == 0:
                reads_in_ctx = 0
            continue
        if x < 0.36:
            attached = [h for h in ms.handles.values() if h.attached]
            H = r.choice(attached)
            try:
                base = ms.resolve(H.res, H.path)
            except Exception:  # noqa: BLE001
                continue
            paths = [p for p, _ in gen.G.container_paths(base, 3) if p]
            if paths:
                sub = r.choice(paths)
                if ms.retain(next_id, H.id, sub):
                    steps.append({"retain": next_id, "h": H.id, "path": sub})
                    next_id += 1
            continue
        if vanish and depth > 0 and reads_in_ctx >= 1 and r.random() < 0.3:
            steps.append({"vanish": 0})
            ms.truth[0] = MISSING
            vanish = False
            continue
        new = gen.gen_program(g, ms, 1, p_read=1.0, depth=2)
        if depth > 0 and any(ms.handles[s_["h"]].res == 0 for s_ in new if "op" in s_):
            reads_in_ctx += 1
        steps.extend(new)
    while depth > 0:
        steps.append({"exit": 1})
        ms.exit()
        depth -= 1
    case = {"cls": info.name, "cfg": spec["cfg"], "res": inits, "roots": roots, "steps": steps,
            "stratum": spec["stratum"],
            "oracle": {"results": True, "resource_each_step": True, "final_call": True}}
    case.update(setup)
    return case


class ReadOnlySession(Session):
    def _aux_sut(self, value):
        # comparison operands are created outside the watched directory
        if not hasattr(self, "_aux_dir"):
            import tempfile

            self._aux_dir = tempfile.mkdtemp(prefix="vfaux_", dir=os.path.dirname(self.scratch))
        saved = self.scratch
        self.scratch = self._aux_dir
        try:
            # aux objects for non-file backends need their own store so counters are not disturbed
            self.aux_count += 1
            from vf import model

            r = catalog.Resource(self.info, self._aux_dir, f"aux{self.aux_count}")
            plain = model.norm(model.decode(value))
            r.outside_write(plain, bump=False)
            d, l = self.info.family_classes()
            return r.new_handle(cls=d if isinstance(plain, dict) else l)
        finally:
            self.scratch = saved

    def _failed_flush(self, st):
        """Preparation: a buffered block whose exit flush fails with EIO at its first write-class event."""
        from vf import inject, model

        obj = self.objs[st["failed_flush"]]
        before = [r.raw() for r in self.resources]

        def block():
            cm = obj.buffered if st["ctx"] == "obj" else self.cls.buffer_backend()
            with cm:
                for s_ in st["steps"]:
                    node = self._navigate(s_["h"], s_.get("path", []))
                    model.run_sut(node, s_["op"], [model.decode(a, self_obj=node, aux=self._aux_sut)
                                                   for a in s_.get("args", [])])

        icpt = inject.FaultAtEvent(1, kinds=("open_w", "os.rename", "os.remove"))
        try:
            inject.with_interceptor(self.scratch, icpt, block)
            raised = False
        except Exception:  # noqa: BLE001 - the failure is reported to the caller, as it should be
            raised = True
        self.counters["failed_flush_preparations"] = self.counters.get("failed_flush_preparations", 0) + 1
        if icpt.fired is not None:
            self.counters["failed_flush_faults_fired"] = self.counters.get("failed_flush_faults_fired", 0) + 1
            if not raised:
                self.counters["failed_flush_not_reported"] = self.counters.get("failed_flush_not_reported", 0) + 1
        if [r.raw() for r in self.resources] != before:
            raise StopCase()  # the block got something written after all: not the situation this case is about

    def run(self):
        json_backend = self.info.backend == "json"
        # ---- un-monitored preparation phase (may write)
        self._apply_cfg()
        for hid, res in self.case["roots"]:
            self._new_root(hid, res)
        for st in self.case.get("pre", []):
            if "delete" in st:
                self.resources[st["delete"]].remove()
                self.model.truth[st["delete"]] = catalog.MISSING
            elif "failed_flush" in st:
                try:
                    self._failed_flush(st)
                except StopCase:
                    self.counters["cases_stopped_early"] = self.counters.get("cases_stopped_early", 0) + 1
                    self.unwind()
                    self._restore_cfg()
                    return
            elif "reorder" in st:
                cur = self.resources[st["reorder"]].probe()
                if cur not in (catalog.MISSING, catalog.UNPARSABLE):
                    self.resources[st["reorder"]].outside_write(_reordered(cur), bump=True)
            else:
                self.do_step(st)
        self._prepared = True
        before = [(r.raw(), r.write_count()) for r in self.resources]
        snaps = [fsmon.stat_snapshot(r.path) for r in self.resources] if json_backend else None
        listing = sorted(os.listdir(self.scratch)) if json_backend else None
        if json_backend:
            fsmon.arm(self.scratch)
        try:
            try:
                for i, step in enumerate(self.case["steps"]):
                    self.step_index = i
                    if "vanish" in step:
                        # the outside world removes the file (monitor paused: this is not the library's doing);
                        # from here on nothing may bring it back
                        k = step["vanish"]
                        fsmon._state["armed"] = False
                        try:
                            self.resources[k].remove()
                        finally:
                            fsmon._state["armed"] = True
                        self.model.truth[k] = catalog.MISSING
                        before[k] = (self.resources[k].raw(), self.resources[k].write_count())
                        snaps[k] = fsmon.stat_snapshot(self.resources[k].path)
                        listing = sorted(os.listdir(self.scratch))
                        self.counters["vanish_steps"] = self.counters.get("vanish_steps", 0) + 1
                        continue
                    self.do_step(step)
                self.step_index = len(self.case["steps"])
                self.finish()
            finally:
                self.unwind()
                self._restore_cfg()
        finally:
            events = fsmon.disarm() if json_backend else []
            if hasattr(self, "_aux_dir"):
                import shutil

                shutil.rmtree(self._aux_dir, ignore_errors=True)
        self.counters["fs_write_events"] = len(events)
        self.step_index = len(self.case["steps"])
        if events:
            self.viol("write_event", f"read-only program caused write-class file-system events: {events[:4]}",
                      op=_first_op(self.case))
        for i, r in enumerate(self.resources):
            raw, wc = before[i]
            if r.raw() != raw:
                self.viol("resource_changed", f"resource r{i} changed: {raw!r} -> {r.raw()!r}"[:400],
                          sub="created" if raw is None else "rewritten")
            if wc is not None and r.write_count() != wc:
                self.viol("store_write", f"store write counter moved {wc} -> {r.write_count()}")
        if json_backend:
            for i, r in enumerate(self.resources):
                if fsmon.stat_snapshot(r.path) != snaps[i]:
                    self.viol("stat_changed", f"file r{i} (inode, size, mtime_ns, sha256) changed: {snaps[i]} -> "
                              f"{fsmon.stat_snapshot(r.path)}")
            if sorted(os.listdir(self.scratch)) != listing:
                self.viol("dir_changed", f"directory content changed: {listing} -> {sorted(os.listdir(self.scratch))}")


def _reordered(x):
    if isinstance(x, dict):
        return {k: _reordered(x[k]) for k in reversed(list(x))}
    if isinstance(x, list):
        return [_reordered(v) for v in x]
    return x


def _first_op(case):
    for s in case["steps"]:
        if "op" in s:
            return s["op"]
    return None


def _nontrivial(case, sess):
    info = catalog.info(case["cls"])
    return sess.counters["reads"] >= 5 and (not info.buffered or any("enter" in s for s in case["steps"]))


def _reader_wrote(prog, res, ops, final, extra):
    """Verdict of part next_to_writer: a write-class file-system event made inside a read call."""
    from vf import model as _model

    for tag, ev in extra.get("fs_by_op", []):
        if tag is None:
            continue
        st = prog["threads"][tag[0]][tag[1]]
        if not _model.is_mutator(st["op"]):
            return ("reader_wrote", f"T{tag[0]}.{tag[1]} {st['op']}{st.get('args', [])} - a read - performed the "
                                    f"file-system event {ev} while a writer thread was active")
    return None


def _directed_progs(spec):
    import copy

    from vf import concgen

    from . import c14

    info = catalog.info(spec["cls"])
    r = gen.rng_for(spec["seed"], "C17-directed", spec["cls"], spec["mode"])
    init = copy.deepcopy(concgen.DICT_INIT if info.kind == "dict" else concgen.LIST_INIT)
    if info.kind == "dict":
        reads = [("call", []), ("eq", [copy.deepcopy(init)]), ("items", []), ("values", []), ("keys", []), ("iter", []),
                 ("repr", []), ("len", []), ("getitem", ["a"]), ("get", ["zz", 0]), ("contains", ["a"]), ("ne", [{}])]
        writers = [("setitem", ["newk", 1]), ("delitem", ["a"]), ("update", ["mapping", {"n1": 1, "n2": 2}, None]),
                   ("pop", ["b"]), ("setdefault", ["n3", [1]])]
        child = ["c"]
        cwriters = [("setitem", ["newk", 1]), ("delitem", ["p"])]
    else:
        reads = [("call", []), ("eq", [copy.deepcopy(init)]), ("iter", []), ("repr", []), ("len", []), ("getitem", [0]),
                 ("contains", [7]), ("count", [7]), ("index", [7]), ("reversed", []), ("lt", [[0]])]
        writers = [("append", ["w"]), ("pop", []), ("insert", [0, "w"]), ("extend", [["w1", "w2"]]), ("delitem", [0])]
        child = [2] if isinstance(init[2], (dict, list)) else None
        cwriters = [("append", ["w"])]
    out = []
    for op, args in reads:
        ws = writers if spec["tier"] == "thorough" else [r.choice(writers)]
        for wop, wargs in ws:
            out.append(({"cls": info.name, "init": copy.deepcopy(init), "roots": [[0, 0]], "pre": [],
                         "threads": [[{"op": wop, "h": 0, "path": [], "args": wargs}],
                                     [{"op": op, "h": 0, "path": [], "args": args}]]}, "T1_directed"))
        if child is not None and (spec["tier"] == "thorough" or r.random() < 0.3) and op not in ("eq", "getitem", "index"):
            wop, wargs = r.choice(cwriters)
            sub = init
            for k in child:
                sub = sub[k]
            if (isinstance(sub, dict)) == (wop in ("setitem", "delitem")) and op in ("call", "iter", "repr", "len", "items",
                                                                                  "values", "keys", "reversed"):
                if not (isinstance(sub, list) and op in ("items", "values", "keys")) and \
                        not (isinstance(sub, dict) and op == "reversed"):
                    out.append(({"cls": info.name, "init": copy.deepcopy(init), "roots": [[0, 0]], "pre": [],
                                 "threads": [[{"op": wop, "h": 0, "path": list(child), "args": wargs}],
                                             [{"op": op, "h": 0, "path": list(child), "args": args}]]}, "T1c_directed"))
    for prog, _ in out:
        if spec["mode"] == "ctx":
            prog["buffered"] = {"cap": None}
    return [(p, {"topology": t}, r) for p, t in out]


def _run_e4(spec):
    import time

    from vf import boot, conc

    boot.boot(lock_shim=True)
    from . import c14

    t0 = conc.clock()
    out = {"evaluations": 0, "keys": [], "violations": [], "samples": [], "counters": {}, "strata": {}}
    c = out["counters"]
    keys = set()
    if spec.get("directed"):
        todo = [t for j, t in enumerate(_directed_progs(spec)) if j % spec["pieces"] == spec["piece"]]
    else:
        todo = (c14.make_prog({**spec, "seed": spec["seed"] + 7919}, i)
                for i in range(spec["start"], spec["start"] + spec["count"]))
    for prog, meta, r in todo:
        if conc.clock() - t0 > E4_BUDGET[spec["tier"]]:
            c["budget_cut_programs"] = c.get("budget_cut_programs", 0) + 1
            continue
        runner = conc.ProgramRunner(prog, watch_fs=True)
        seen = {"events": 0, "by_reads": 0}

        def verdict(prog_, res, ops, final, extra, _seen=seen):
            _seen["events"] += len(extra.get("fs_by_op", []))
            return _reader_wrote(prog_, res, ops, final, extra)

        try:
            res = conc.explore(prog, runner, r, spec["tier"],
                               {"cls": prog["cls"], "part": "next_to_writer", "topology": meta["topology"],
                                "mode": spec["mode"] or "unbuffered"},
                               policies=("sweep",) if spec["tier"] == "quick"
                               else ("sweep", "boundary", "two_delay", "random"),
                               deadline=t0 + E4_BUDGET[spec["tier"]] * 1.5, verdict=verdict)
        finally:
            runner.close()
        out["evaluations"] += res["runs"]
        pk = gen.case_key(prog)
        for s_ in res["schedules"]:
            keys.add((pk ^ s_) & (2**63 - 1))
        st = out["strata"].setdefault("next_to_writer:" + meta["topology"], {"programs": 0, "runs": 0})
        st["programs"] += 1
        st["runs"] += res["runs"]
        c["e4_runs"] = c.get("e4_runs", 0) + res["runs"]
        c["e4_interleaved_runs"] = c.get("e4_interleaved_runs", 0) + res["interleaved_runs"]
        c["e4_write_events_attributed"] = c.get("e4_write_events_attributed", 0) + seen["events"]
        if res["inconclusive"]:
            c["inconclusive_runs"] = c.get("inconclusive_runs", 0) + len(res["inconclusive"])
        # failures of the interleaving itself (lost update, RuntimeError ...) are C14's business (D13), not C17's
        out["violations"].extend(v for v in res["violations"][:1] if v["sig"]["kind"] == "reader_wrote")
    out["keys"] = sorted(keys)
    return out


def run_shard(spec):
    if spec.get("part") == "next_to_writer":
        return _run_e4(spec)
    return e1.run_shard(spec, make_case, nontrivial=_nontrivial, session_cls=ReadOnlySession)


def floors(tier, merged):
    c = merged["counters"]
    return [("reads_executed", c.get("reads", 0), 5000),
            ("next_to_writer_runs_with_mid_operation_switch", c.get("e4_interleaved_runs", 0), 300),
            ("next_to_writer_write_events_attributed_to_a_call", c.get("e4_write_events_attributed", 0), 300)]


def replay(case):
    if "prog" in case:
        from vf import boot, conc

        boot.boot(lock_shim=True)
        return conc.replay_one(case, watch_fs=True, verdict=_reader_wrote)
    return e1.run_case(case, session_cls=ReadOnlySession)[0]
