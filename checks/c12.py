"""C12 - every JSON value is accepted and round-trips exactly."""
import copy
import itertools
import shutil

from vf import boot, catalog, gen, model
from vf.catalog import MISSING
from vf.session import make_scratch

PROPERTY = "C12"
LEVEL = "exploration"
RULE = ("values: (i) exhaustive enumeration of all JSON trees with <= 2 nodes (quick) / <= 3 nodes (thorough) over "
        "an alphabet of 23 boundary scalars (null, booleans, 0, 1, -1, 2**70, -(2**80), 2**1024, -(10**400), 0.5, -0.0, 1e308, 5e-324, "
        "empty / escape-heavy / NUL / astral / BMP-extreme strings, unpaired surrogates) and 6 keys (empty, unicode, NUL, dotted for "
        "the non-attribute families, 300 characters); (ii) seeded random trees to depth 8 and ~200 nodes. Each value "
        "is stored through every mutating entry point (constructor data=, item and slice assignment, setdefault, "
        "update as mapping/pairs/kwargs, reset, append, extend, insert, +=, nested-position variants, reset repeated "
        "after an outside rewrite; for the buffered classes also update / reset / item assignment over existing "
        "content inside obj.buffered and buffer_backend(), judged after the context is left; update / reset over a "
        "*lookalike* of the value - ==-equal scalar of another type, another falsy value, string vs list of its "
        "characters, dict vs list of its keys, empty container of the other kind, strict superset / subset of a dict, "
        "strict extension / prefix of a list) of each of "
        "the 18 classes, then read back through a *fresh* object on the same resource and, independently, from "
        "the resource itself; both must be strictly equal (same JSON type at every leaf) to the expected plain "
        "content. distinct = (class, entry point, value) triple; non-trivial = every triple.")
ASSUMPTIONS = [
    "the fakes do not emulate server-side limits (MongoDB 64-bit integers, Redis value size)",
    "reset_over / update_over store the value over existing content of equal size with other keys and over "
    "==-equal values of another JSON type (1 / True / 1.0)",
]
SHARD_TIMEOUT = {"quick": 600, "thorough": 3600}

SCALARS = [None, True, False, 0, 1, -1, 2**70, -(2**80), 2**1024, -(10**400), 0.5, -0.0, 1e308, 5e-324, 1.0,
           "", "a", "\u0000", "\"\\/\b\f\n\r\t", "\U0001F600\U00010000", "\uffff\ud7ff\ue000",
           # unpaired surrogates: legal in JSON text as \uXXXX escapes (json.loads('"\\ud800"') yields them)
           "\ud800", "x\udfffy"]
KEYS = ["", "k", "\u0000", "\U0001F600é", "x" * 300, "a.b"]


def trees(n, keys):
    """All JSON trees with exactly n nodes (a container counts 1 + its children)."""
    if n == 1:
        for s in SCALARS:
            yield s
        yield []
        yield {}
        return
    # lists: compositions of n-1 into child sizes
    for parts in _compositions(n - 1):
        for combo in itertools.product(*[list(trees(p, keys)) for p in parts]):
            yield list(combo)
    for parts in _compositions(n - 1):
        if len(parts) > len(keys):
            continue
        for ks in itertools.combinations(keys, len(parts)):
            for combo in itertools.product(*[list(trees(p, keys)) for p in parts]):
                yield dict(zip(ks, combo))


def _compositions(n):
    if n == 0:
        return
    for first in range(1, n + 1):
        if first == n:
            yield (n,)
        else:
            for rest in _compositions(n - first):
                yield (first,) + rest


def random_tree(r, depth, keys, budget):
    if depth <= 0 or budget[0] <= 0 or r.random() < 0.25:
        budget[0] -= 1
        x = r.random()
        if x < 0.6:
            return r.choice(SCALARS)
        if x < 0.75:
            return r.choice([r.randrange(-10**30, 10**30), r.randrange(-5, 5), 2**63, -2**63 - 1, 2**64])
        if x < 0.9:
            return r.choice([r.uniform(-1e6, 1e6), r.random() * 1e-300, float(r.randrange(10**15)), 1.7976931348623157e308])
        return "".join(chr(r.choice([r.randrange(0, 128), r.randrange(128, 0xD800), r.randrange(0xE000, 0x10000),
                                     r.randrange(0x10000, 0x110000)])) for _ in range(r.randrange(0, 12)))
    budget[0] -= 1
    n = r.choice([0, 1, 2, 3, 5])
    if r.random() < 0.5:
        return [random_tree(r, depth - 1, keys, budget) for _ in range(n)]
    return {r.choice(keys) + (str(i) if r.random() < 0.5 else ""): random_tree(r, depth - 1, keys, budget)
            for i in range(n)}


DICT_ENTRIES = ["ctor", "setitem", "setdefault", "update_mapping", "update_pairs", "update_kwargs", "reset",
                "nested_setitem", "nested_append", "reset_over", "update_over", "reset_after_outside"]
LIST_ENTRIES = ["ctor", "setitem", "slice", "append", "extend", "insert", "iadd", "reset", "nested_setitem",
                "nested_append", "reset_over", "reset_after_outside"]
# the value is stored over a *lookalike*: another JSON value that a sloppy comparison equates with it (==-equal
# scalars of another type, the other falsy values, a string vs the list of its characters, a dict vs the list of
# its keys, an empty container of the other kind) - through the in-place merge of update() / reset()
LOOKALIKE_ENTRIES = ["update_over_lookalike#0", "update_over_lookalike#1", "update_over_lookalike#2",
                     "update_over_lookalike#3", "update_over_lookalike#4",
                     "reset_over_lookalike#0", "reset_over_lookalike#1", "reset_over_lookalike#2",
                     "reset_over_lookalike#3", "reset_over_lookalike#4", "reset_over_lookalike#5"]
FALSY = [None, False, 0, 0.0, "", [], {}]


class Skip(Exception):
    pass


def lookalikes(value):
    out = []
    if isinstance(value, bool):
        out += [int(value), float(value)]
    elif isinstance(value, int) and abs(value) < 2**53:
        out += [float(value)] + ([bool(value)] if value in (0, 1) else [])
    elif isinstance(value, float) and value == int(value) and abs(value) < 2**53:
        out += [int(value)] + ([bool(value)] if value in (0.0, 1.0) else [])
    elif isinstance(value, str):
        out.append(list(value))
    elif isinstance(value, list):
        # a strict extension / a strict prefix of the value (a comparison that stops at the shorter one)
        out.append(copy.deepcopy(value) + ["zz+"])
        if value:
            out.append(copy.deepcopy(value[:-1]))
        if all(isinstance(x, str) and len(x) == 1 for x in value):
            out.append("".join(value))
        if not value:
            out.append({})
    elif isinstance(value, dict):
        # a strict superset / a strict subset of the value (a comparison that only looks at the new keys, or
        # only at the old ones)
        out.append({**copy.deepcopy(value), "zz+": 1})
        if value:
            out.append(copy.deepcopy(dict(list(value.items())[:-1])))
        out.append(list(value))
    if not value and value is not None or value is None:
        out += [f for f in FALSY if not (type(f) is type(value) and f == value)]
    uniq = []
    for o in out:
        if not any(type(o) is type(u) and o == u for u in uniq) and not (type(o) is type(value) and o == value):
            uniq.append(o)
    return uniq


# buffered classes only: the value is stored inside a buffered context (per-object / backend-wide) over existing
# content; the round trip is judged after the context has been left
BUFFERED_ENTRIES = ["update_over@obj", "update_over@backend", "reset_over@obj", "setitem_over@backend",
                    "nested_setitem@obj"]


def store_buffered(info, res, entry, value):
    v = copy.deepcopy(value)
    what, where = entry.split("@")
    cls = info.cls()
    if info.kind == "dict":
        res.outside_write({"o1": "old", "v": 1, "t": True, "n": {"p": 1}}, bump=False)
    else:
        res.outside_write([1, "old", True, {"p": 1}], bump=False)
    obj = res.new_handle()
    cm = obj.buffered if where == "obj" else cls.buffer_backend()
    with cm:
        obj()
        if info.kind == "dict":
            if what == "update_over":
                obj.update({"v": v, "t": 1})
                want = {"o1": "old", "v": value, "t": 1, "n": {"p": 1}}
            elif what == "reset_over":
                obj.reset({"o1": "old", "v": v, "t": 1.0, "n": {"p": 1}})
                want = {"o1": "old", "v": value, "t": 1.0, "n": {"p": 1}}
            elif what == "setitem_over":
                obj["v"] = v
                want = {"o1": "old", "v": value, "t": True, "n": {"p": 1}}
            else:
                obj["n"]["p"] = v
                want = {"o1": "old", "v": 1, "t": True, "n": {"p": value}}
        else:
            if what == "update_over":
                obj[0] = v
                obj[2] = 1
                want = [value, "old", 1, {"p": 1}]
            elif what == "reset_over":
                obj.reset([v, "old", 1.0, {"p": 1}])
                want = [value, "old", 1.0, {"p": 1}]
            elif what == "setitem_over":
                obj[0] = v
                want = [value, "old", True, {"p": 1}]
            else:
                obj[3]["p"] = v
                want = [1, "old", True, {"p": value}]
    return want


def store(info, res, entry, value):
    """Store ``value`` through ``entry``; returns the expected plain content of the resource."""
    v = copy.deepcopy(value)
    if "@" in entry:
        return store_buffered(info, res, entry, value)
    if "#" in entry:
        what, i = entry.split("#")
        alts = lookalikes(value)
        if int(i) >= len(alts):
            raise Skip()
        prior = copy.deepcopy(alts[int(i)])
        obj = res.new_handle()
        if info.kind == "dict":
            obj["v"] = prior
            obj["w"] = {"n": copy.deepcopy(prior)}
            if what == "update_over_lookalike":
                obj.update({"v": v, "w": {"n": copy.deepcopy(v)}})
            else:
                obj.reset({"v": v, "w": {"n": copy.deepcopy(v)}})
            return {"v": value, "w": {"n": value}}
        if what == "update_over_lookalike":
            raise Skip()
        obj.reset([prior, [copy.deepcopy(prior)], "tail"])
        obj.reset([v, [copy.deepcopy(v)], "tail"])
        return [value, [value], "tail"]
    if entry == "reset_after_outside":
        # a save that is not preceded by a load (root reset), repeated after someone else rewrote the resource
        first = {"v": v} if info.kind == "dict" else [v]
        obj = res.new_handle()
        obj.reset(copy.deepcopy(first))
        res.outside_write({"other": 1} if info.kind == "dict" else ["other"])
        obj.reset(copy.deepcopy(first))
        return {"v": value} if info.kind == "dict" else [value]
    if info.kind == "dict":
        if entry == "ctor":
            obj = res.new_handle(data={"v": v})
            obj["z"] = 0  # data= is persisted by the first save
            return {"v": value, "z": 0}
        if entry in ("nested_setitem", "nested_append"):
            res.outside_write({"n": {"p": "old"}, "l": ["old"]}, bump=False)
            obj = res.new_handle()
            if entry == "nested_setitem":
                obj["n"]["p"] = v
                return {"n": {"p": value}, "l": ["old"]}
            obj["l"].append(v)
            return {"n": {"p": "old"}, "l": ["old", value]}
        if entry in ("reset_over", "update_over"):
            # over existing content of the same size with other keys, and over an ==-equal value of another type
            res.outside_write({"o1": "old", "o2": ["old"], "v": 1, "t": True}, bump=False)
            obj = res.new_handle()
            obj()
            if entry == "reset_over":
                obj.reset({"v": v, "w": 1, "x": [2], "t": 1.0})
                return {"v": value, "w": 1, "x": [2], "t": 1.0}
            obj.update({"v": v, "t": 1})
            return {"o1": "old", "o2": ["old"], "v": value, "t": 1}
        obj = res.new_handle()
        if entry == "setitem":
            obj["v"] = v
        elif entry == "setdefault":
            obj.setdefault("v", v)
        elif entry == "update_mapping":
            obj.update({"v": v})
        elif entry == "update_pairs":
            obj.update([("v", v)])
        elif entry == "update_kwargs":
            obj.update(v=v)
        elif entry == "reset":
            obj.reset({"v": v})
        return {"v": value}
    if entry == "ctor":
        obj = res.new_handle(data=[v])
        obj.append(0)
        return [value, 0]
    if entry in ("nested_setitem", "nested_append"):
        res.outside_write([{"p": "old"}, ["old"]], bump=False)
        obj = res.new_handle()
        if entry == "nested_setitem":
            obj[0]["p"] = v
            return [{"p": value}, ["old"]]
        obj[1].append(v)
        return [{"p": "old"}, ["old", value]]
    if entry == "reset_over":
        res.outside_write([1, "old", ["old"], True], bump=False)
        obj = res.new_handle()
        obj()
        obj.reset([v, "n", [2], 1.0])
        return [value, "n", [2], 1.0]
    if entry in ("setitem", "slice"):
        res.outside_write(["old", "tail"], bump=False)
    obj = res.new_handle()
    if entry == "setitem":
        obj[0] = v
        return [value, "tail"]
    if entry == "slice":
        obj[0:1] = [v, v]
        return [value, value, "tail"]
    if entry == "append":
        obj.append(v)
    elif entry == "extend":
        obj.extend([v])
    elif entry == "insert":
        obj.insert(0, v)
    elif entry == "iadd":
        obj += [v]
    elif entry == "reset":
        obj.reset([v])
    return [value]


def plan(tier, seed):
    specs = []
    for c in catalog.CLASSES:
        pieces = 1 if tier == "quick" else 4
        for pi in range(pieces):
            specs.append({"cls": c.name, "tier": tier, "seed": seed, "piece": pi, "pieces": pieces})
    return specs


def values_for(info, tier, seed, piece, pieces):
    keys = [k for k in KEYS if not (info.attr and "." in k)]
    vals = []
    maxn = 2 if tier == "quick" else 3
    for n in range(1, maxn + 1):
        vals.extend(trees(n, keys))
    r = gen.rng_for(seed, "C12", info.name)
    if tier == "quick":
        extra = list(trees(3, keys))
        vals.extend(r.sample(extra, 120))
    nrand = 40 if tier == "quick" else 400
    for _ in range(nrand):
        vals.append(random_tree(r, r.choice([2, 4, 8]), keys, [r.choice([10, 50, 200])]))
    return [v for i, v in enumerate(vals) if i % pieces == piece]


def run_shard(spec):
    boot.boot()
    info = catalog.info(spec["cls"])
    out = {"evaluations": 0, "keys": [], "violations": [], "samples": [], "counters": {}, "strata": {}}
    vals = values_for(info, spec["tier"], spec["seed"], spec["piece"], spec["pieces"])
    entries = (DICT_ENTRIES if info.kind == "dict" else LIST_ENTRIES) + (BUFFERED_ENTRIES if info.buffered else []) \
        + LOOKALIKE_ENTRIES
    scratch = make_scratch()
    keys = set()
    try:
        n = 0
        for vi, value in enumerate(vals):
            for entry in entries:
                if entry == "update_kwargs" and False:
                    continue
                n += 1
                res = catalog.Resource(info, scratch, f"v{n}")
                sig = {"cls": info.name, "family": info.family, "entry": entry}
                case = {"cls": info.name, "entry": entry, "value": _enc(value)}
                try:
                    want = store(info, res, entry, value)
                except Skip:
                    n -= 1
                    continue
                except Exception as e:  # noqa: BLE001
                    out["violations"].append({"sig": {**sig, "kind": "rejected", "exc": type(e).__name__},
                                              "detail": f"{info.name} {entry} rejected JSON value {value!r}: "
                                                        f"{type(e).__name__}: {e}"[:500], "case": case})
                    res.remove()
                    continue
                out["evaluations"] += 1
                keys.add(gen.case_key([info.name, entry, model.canon(value)]))
                probe = res.probe()
                try:
                    fresh = res.new_handle()()
                except Exception as e:  # noqa: BLE001
                    fresh = f"<raised {type(e).__name__}: {e}>"
                for name, got in (("resource", probe), ("fresh object", fresh)):
                    if got == MISSING or not model.strict_eq(got, want):
                        out["violations"].append({
                            "sig": {**sig, "kind": "roundtrip_" + name.split()[0],
                                    "type_only": got != MISSING and model.plain_eq(got, want)},
                            "detail": f"{info.name} {entry}: stored {value!r}; {name} gives {got!r}, expected {want!r}"[:700],
                            "case": case})
                        break
                res.remove()
                if len(out["violations"]) > 40:
                    break
            if len(out["violations"]) > 40:
                break
    finally:
        shutil.rmtree(scratch, ignore_errors=True)
    out["violations"] = out["violations"][:25]
    out["counters"]["values"] = len(vals)
    out["counters"]["entry_points"] = len(entries)
    out["samples"].append({"cls": info.name, "value": _enc(vals[len(vals) // 2]), "entries": entries})
    out["keys"] = sorted(keys)
    return out


def _enc(v):
    return model.canon(v)[:600]


def floors(tier, merged):
    return [("roundtrips", merged["evaluations"], 20000)]


def extra_coverage(tier, merged):
    return {"exhaustive": False,
            "explanation": "trees with <= 2 (quick) / <= 3 (thorough) nodes over the scalar/key alphabet are enumerated "
                           "completely; larger trees are sampled"}
