"""C15 - buffer size accounting is exact, bounded by capacity, and returns to zero."""
import json

from vf import catalog, e1, gen
from vf import model as _m
from vf.catalog import MISSING
from vf.session import ModelState, Session

from . import common

PROPERTY = "C15"
LEVEL = "exploration"
RULE = ("seeded programs over 1-4 files (one object each) with random well-nested obj.buffered / "
        "buffer_backend(capacity) contexts (depth <= 3), set_buffer_capacity() in the middle of contexts, all "
        "mutators and reads, files existing and missing, for the 8 buffered classes. After every public call "
        "(a quiescent point): (a) always: size <= capacity; size == 0 when the context model says nothing is "
        "buffered; at every backend-wide exit the capacity equals the one in effect before that context was "
        "entered; every file equals the plain model once its contexts have exited (nothing lost by forced "
        "flushes). (b) stratum no_forcing (capacity far above the data): the exact value - serialized: sum of "
        "len(json.dumps(model content)) over the files touched since their buffered state began; shared-memory: "
        "number of those files on which a mutator ran. (c) stratum forcing (capacities 0, 1, below one document, "
        "between one and two documents): the set of buffered files is observed (keys / modified flags of "
        "Class._buffer at the quiescent point) and the arithmetic is recomputed from the model content of "
        "exactly those files; independently sum(len(entry contents)) == reported size. distinct = case hash; "
        "Stratum conflict (directed): capacity-forced flushes that fail for a file changed outside (BufferedError), "
        "size checked (>= 0, <= capacity, == sum over the observed entries) after every call and == 0 after the exit. "
        "non-trivial = >= 1 mutator ran while buffered.")
ASSUMPTIONS = [
    "layer (c) peeks at Class._buffer (hooked state, read-only); if the attribute does not exist the layer "
    "reports 'unavailable' and layers (a)+(b) decide",
    "the serialized size is compared with json.dumps default separators, as the repository's own "
    "test_buffer_flush assumes",
]
STRATA = ["no_forcing", "forcing"]
PER = {"quick": {"no_forcing": 400, "forcing": 400}, "thorough": {"no_forcing": 3000, "forcing": 3000}}
STEPS = {"quick": 35, "thorough": 55}


def plan(tier, seed):
    combos = [(c, {"wc": False, "threading": True}) for c in catalog.BUFFERED_CLASSES]
    specs = common.plan_grid(tier, seed, combos, PER, STRATA, pieces=4)
    for c in catalog.BUFFERED_CLASSES:
        specs.append({"cls": c.name, "stratum": "conflict", "tier": tier, "seed": seed, "cfg": {}})
    return specs


def make_case(spec, i):
    info = catalog.info(spec["cls"])
    r = gen.rng_for(spec["seed"], "C15", spec["cls"], spec["stratum"], i)
    g = gen.G(r, attr=info.attr, surrogates=True)
    nres = r.choice([1, 2, 3, 4])
    inits = [MISSING if r.random() < 0.15 else g.shape(info.kind, 2) for _ in range(nres)]
    ms = ModelState(info.kind, inits)
    roots = [[h, h] for h in range(nres)]
    for h, res in roots:
        ms.add_root(h, res)
    forcing = spec["stratum"] == "forcing"
    doc = max(len(json.dumps(x)) for x in inits if x != MISSING) if any(x != MISSING for x in inits) else 2
    if info.strategy == "serialized":
        small = [0, 1, max(doc - 3, 0), doc + 4, 2 * doc - 1, 3 * doc]
    else:
        small = [0, 1, 1, 2]
    steps = []
    depth = 0
    n = STEPS[spec["tier"]]
    while len(steps) < n:
        x = r.random()
        if x < 0.14 and depth < 3:
            live = [h.id for h in ms.handles.values() if h.is_root and h.attached]
            if r.random() < 0.45 and live:
                st = {"enter": "obj", "h": r.choice(live)}
            else:
                cap = None
                if r.random() < 0.6:
                    cap = r.choice(small) if forcing else r.choice([10**7, 10**8])
                st = {"enter": "backend", "cap": cap}
            steps.append(st)
            ms.enter(st)
            depth += 1
            continue
        if x < 0.26 and depth > 0:
            steps.append({"exit": 1})
            ms.exit()
            depth -= 1
            continue
        if x < 0.31 and depth > 0:
            steps.append({"setcap": r.choice(small) if forcing else r.choice([10**6, 10**9])})
            continue
        if x < 0.34 and ms.backend_count > 0:
            # the program drops an object that was used inside the backend-wide context (no context of its own):
            # what it buffered stays accounted for until the context flushes it, and is gone afterwards
            cands = [h for h in ms.handles.values() if h.is_root and h.attached and ms.obj_count.get(h.id, 0) == 0]
            if cands:
                H = r.choice(cands)
                steps.append({"drop": H.id})
                for hh in ms.handles.values():
                    if hh.root == H.id:
                        hh.attached = False
                continue
        steps.extend(gen.gen_program(g, ms, 1, p_read=0.35, depth=2))
    while depth > 0:
        steps.append({"exit": 1})
        ms.exit()
        depth -= 1
    case = {"cls": info.name, "cfg": spec["cfg"], "res": inits, "roots": roots, "steps": steps,
            "stratum": spec["stratum"],
            "oracle": {"results": True, "resource_strict": True, "buffer_defers": False}}
    if forcing:
        case["small_capacity"] = True
    return case


class AccountingSession(Session):
    def __init__(self, case, scratch):
        super().__init__(case, scratch)
        self.in_buffer = [False] * len(self.resources)
        self.mutated = [False] * len(self.resources)
        self.cap_stack = []
        self.default_cap = self.cls.get_buffer_capacity()
        self.cur_cap = self.default_cap
        self.counters.update({"quiescent_checks": 0, "exact_checks": 0, "peek_checks": 0, "peek_unavailable": 0,
                              "nonzero_sizes_seen": 0})

    def _aux_sut(self, value):
        # comparison operands stay plain here: a synced operand of the same class would itself be
        # buffered by a backend-wide context and (legitimately) count towards the size
        return _m.norm(_m.decode(value))

    def do_step(self, step):
        m = self.model
        if "op" in step:
            H = m.handles.get(step["h"])
            buffered = H is not None and m.is_buffered_root(H.root)
            excs = self.counters["excs"]
            super().do_step(step)
            failed = self.counters["excs"] > excs
            if buffered and H is not None:
                # None = "maybe": an operation that raised may or may not have loaded / saved
                if not failed or step.get("path") or H.path:
                    self.in_buffer[H.res] = True
                elif self.in_buffer[H.res] is False:
                    self.in_buffer[H.res] = None
                if _m.is_mutator(step["op"]):
                    if not failed:
                        self.mutated[H.res] = True
                    elif self.mutated[H.res] is False:
                        self.mutated[H.res] = None
        elif "enter" in step:
            super().do_step(step)
            if step["enter"] == "backend":
                # only a context that was *given* a capacity restores the previous one
                if step.get("cap") is not None:
                    self.cap_stack.append(self.cur_cap)
                    self.cur_cap = step["cap"]
                else:
                    self.cap_stack.append(None)
        elif "exit" in step:
            kind = m.stack[-1][0]
            before = {r: m.res_buffered(r) for r in range(len(self.resources))}
            super().do_step(step)
            for r, was in before.items():
                if was and not m.res_buffered(r):
                    self.in_buffer[r] = False
                    self.mutated[r] = False
            if kind == "backend":
                want = self.cap_stack.pop()
                if want is None:
                    want = self.cur_cap
                self.cur_cap = want
                got = self.cls.get_buffer_capacity()
                if got != want:
                    self.viol("capacity_not_restored", f"after leaving buffer_backend the capacity is {got}, "
                              f"it was {want} before the context was entered", op="exit_backend")
        elif "setcap" in step:
            super().do_step(step)
            self.cur_cap = step["setcap"]
        else:
            super().do_step(step)
        self.quiescent(step)

    def quiescent(self, step):
        m = self.model
        cls = self.cls
        size = cls.get_current_buffer_size()
        cap = cls.get_buffer_capacity()
        self.counters["quiescent_checks"] += 1
        if size:
            self.counters["nonzero_sizes_seen"] += 1
        what = step.get("op") or ("enter" if "enter" in step else "exit" if "exit" in step else "setcap")
        if cap != self.cur_cap:
            self.viol("capacity_drift", f"capacity is {cap}, the program set {self.cur_cap}", op=what)
        if size > cap:
            self.viol("size_exceeds_capacity", f"size {size} > capacity {cap} after {what}", op=what)
        any_buffered = any(m.res_buffered(r) for r in range(len(self.resources)))
        if not any_buffered and size != 0:
            self.viol("size_not_zero", f"no buffered context is active but the size is {size}", op=what)
        serialized = self.info.strategy == "serialized"
        if self.case["stratum"] == "no_forcing":
            lo = hi = 0
            for r in range(len(self.resources)):
                unit = len(json.dumps(m.logical[r])) if serialized else 1
                flag = self.in_buffer[r] if serialized else (
                    False if self.in_buffer[r] is False or self.mutated[r] is False else
                    (True if self.in_buffer[r] and self.mutated[r] else None))
                if flag is True:
                    lo += unit
                    hi += unit
                elif flag is None:
                    hi += unit
            self.counters["exact_checks"] += 1
            want = lo if lo == hi else f"{lo}..{hi}"
            ok = size == lo if lo == hi else (lo <= size <= hi)
            if not ok:
                self.viol("size_wrong", f"size {size} after {what}, expected {want} "
                          f"(in buffer: {self.in_buffer}, mutated: {self.mutated})", op=what, layer="exact")
        else:
            buf = getattr(cls, "_buffer", None)
            if not isinstance(buf, dict):
                self.counters["peek_unavailable"] += 1
                return
            self.counters["peek_checks"] += 1
            by_path = {r.path: i for i, r in enumerate(self.resources)}
            try:
                if serialized:
                    internal = sum(len(e["contents"]) for e in buf.values())
                    want = sum(len(json.dumps(m.logical[by_path[p]])) for p in buf if p in by_path)
                else:
                    internal = sum(1 for e in buf.values() if e["modified"])
                    want = internal
            except Exception:  # noqa: BLE001 - the peeked structure changed shape
                self.counters["peek_unavailable"] += 1
                return
            if internal != size:
                self.viol("size_wrong", f"size {size} after {what} but the buffer entries add up to {internal}",
                          op=what, layer="peek_internal")
            if size != want:
                self.viol("size_wrong", f"size {size} after {what}, the model content of the buffered files "
                          f"{sorted(by_path[p] for p in buf if p in by_path)} adds up to {want}", op=what,
                          layer="peek_model")


def _nontrivial(case, sess):
    depth = 0
    for s in case["steps"]:
        if "enter" in s:
            depth += 1
        elif "exit" in s:
            depth -= 1
        elif "op" in s and depth > 0 and _m.is_mutator(s["op"]):
            return True
    return False


def conflict_cases(spec, out):
    """Directed: accounting around a capacity-forced flush that fails for one file (outside change)."""
    import shutil

    from vf import boot
    from vf.session import make_scratch

    boot.boot()
    from synced_collections.errors import BufferedError
    info = catalog.info(spec["cls"])
    cls = info.cls()
    kind = info.kind
    r = gen.rng_for(spec["seed"], "C15c", spec["cls"])

    def mod(o, tag):
        if kind == "dict":
            o[tag] = [tag]
        else:
            o.append(tag)

    n_cases = 40 if spec["tier"] == "quick" else 400
    for ci in range(n_cases):
        scratch = make_scratch()
        catalog.reset_class_state(cls)
        try:
            nfiles = r.choice([2, 3, 4])
            res = [catalog.Resource(info, scratch, f"f{i}") for i in range(nfiles)]
            for i, x in enumerate(res):
                x.outside_write({"i": i, "p": "x" * r.randrange(0, 30)} if kind == "dict" else [i, "x" * r.randrange(0, 30)],
                                bump=False)
            objs = [x.new_handle() for x in res]
            cap = r.choice([0, 1, 1, 2]) if info.strategy == "memory" else r.choice([0, 10, 40, 80, 200])
            trace = []
            case = {"cls": info.name, "cap": cap, "files": nfiles, "trace": trace}

            def check(where):
                size, capn = cls.get_current_buffer_size(), cls.get_buffer_capacity()
                out["counters"]["conflict_quiescent_checks"] = out["counters"].get("conflict_quiescent_checks", 0) + 1
                buf = getattr(cls, "_buffer", None)
                prob = None
                if size < 0:
                    prob = f"negative size {size}"
                elif size > capn:
                    prob = f"size {size} > capacity {capn}"
                elif isinstance(buf, dict):
                    try:
                        internal = (sum(len(e["contents"]) for e in buf.values()) if info.strategy == "serialized"
                                    else sum(1 for e in buf.values() if e["modified"]))
                    except Exception:  # noqa: BLE001
                        internal = size
                    if internal != size:
                        prob = f"size {size} but the buffer entries add up to {internal}"
                if prob and len(out["violations"]) < 10:
                    out["violations"].append({"sig": {"cls": info.name, "strategy": info.strategy, "kind": "size_wrong",
                                                      "layer": "conflict", "stratum": "conflict"},
                                              "detail": f"{info.name} cap={cap} after {where}: {prob}; trace {trace}",
                                              "case": case})
                    return False
                return True

            cm = cls.buffer_backend(cap)
            cm.__enter__()
            ok = True
            try:
                for step in range(r.choice([4, 6, 9])):
                    i = r.randrange(nfiles)
                    what = r.choice(["mod", "mod", "read", "outside", "mod"])
                    trace.append([what, i])
                    try:
                        if what == "mod":
                            mod(objs[i], f"s{step}")
                        elif what == "read":
                            objs[i]()
                        else:
                            res[i].outside_write({"o": step, "pad": "y" * 13} if kind == "dict" else ["o", step, "y" * 13],
                                                 bump=True)
                    except BufferedError:
                        trace[-1].append("BufferedError")
                        out["counters"]["conflict_errors"] = out["counters"].get("conflict_errors", 0) + 1
                    ok = check(f"step {step} {what} f{i}")
                    if not ok:
                        break
            finally:
                try:
                    cm.__exit__(None, None, None)
                except BufferedError:
                    trace.append(["exit", "BufferedError"])
                    out["counters"]["conflict_errors"] = out["counters"].get("conflict_errors", 0) + 1
            out["evaluations"] += 1
            out["keys"].append(gen.case_key([info.name, "conflict", ci, spec["seed"]]))
            if ok:
                size = cls.get_current_buffer_size()
                if size != 0 and len(out["violations"]) < 10:
                    out["violations"].append({"sig": {"cls": info.name, "strategy": info.strategy, "kind": "size_not_zero",
                                                      "stratum": "conflict"},
                                              "detail": f"{info.name} cap={cap}: size {size} after the context exited; trace {trace}",
                                              "case": case})
            if not out["samples"]:
                out["samples"].append(case)
        finally:
            catalog.reset_class_state(cls)
            shutil.rmtree(scratch, ignore_errors=True)


def run_shard(spec):
    if spec["stratum"] == "conflict":
        out = {"evaluations": 0, "keys": [], "violations": [], "samples": [], "counters": {}, "strata": {}}
        conflict_cases(spec, out)
        out["strata"]["conflict"] = {"cases": out["evaluations"], "violations": len(out["violations"]), "steps": 0}
        return out
    return e1.run_shard(spec, make_case, nontrivial=_nontrivial, session_cls=AccountingSession)


def floors(tier, merged):
    c = merged["counters"]
    return [("quiescent_checks", c.get("quiescent_checks", 0), 10000),
            ("exact_value_checks", c.get("exact_checks", 0), 3000),
            ("nonzero_sizes_seen", c.get("nonzero_sizes_seen", 0), 1000)]


def replay(case):
    return e1.run_case(case, session_cls=AccountingSession)[0]
