"""C07 - a buffered flush never silently overwrites a file changed by someone else."""
import copy
import itertools
import os
import shutil

from vf import boot, catalog, fsmon, gen, model
from vf.catalog import MISSING
from vf.session import make_scratch

PROPERTY = "C07"
LEVEL = "fault_enumeration"
RULE = ("n = 1..4 files, each assigned (role, outside change) from {modified, read-only, untouched} x {changed "
        "before its first buffered access, after it (before or after the buffered modification), never}; "
        "exhaustive over all assignments for n <= 2 (quick) / n <= 3 (thorough), sampled above; first-touch "
        "order permuted; flush trigger in {per-object context exits, backend-wide exit, backend-wide exit of a "
        "context that set a capacity (also with a small capacity in effect before it), set_buffer_capacity(0) inside the context, a capacity-forced flush during "
        "an operation on an unrelated file}; both strategies; dict and list. The outside writer always changes "
        "size and mtime. Expected outcomes come straight from the statement: a conflicting file (modified in the "
        "buffer and changed outside after it entered) makes the flush that would write it raise - MetadataError "
        "from a per-object exit, BufferedError whose .files are exactly the conflicting files from a backend-wide "
        "or forced flush, also when a second object on that file took part in the context - and keeps the outside content; read-only and untouched files never raise and are never "
        "written (audit-hook monitor armed around every library call); non-conflicting modified files are "
        "written; afterwards buffer size is 0, the capacity is what it was, every collection reads what is on disk "
        "and accepts a write. distinct = case hash; non-trivial = >= 1 outside change and >= 1 buffered "
        "modification.")
ASSUMPTIONS = [
    "after the first conflict error is delivered the program does not modify the conflicting file again "
    "(the statement does not say what should happen then); it only leaves contexts and reads",
]
SHARD_TIMEOUT = {"quick": 600, "thorough": 3600}
CLASSES = ["BufferedJSONDict", "BufferedJSONList", "MemoryBufferedJSONDict", "MemoryBufferedJSONList"]
ROLES = ["modified", "readonly", "untouched"]
WHEN = ["before", "after_read", "after_mod", "never"]
TRIGGERS = ["obj_exit", "backend_exit", "backend_exit_cap", "backend_exit_cap_small_prev", "set_capacity_0",
            "forced_by_other_op"]


def assignments(n):
    cells = [(r, w) for r in ROLES for w in WHEN if not (r != "modified" and w == "after_mod")]
    return itertools.product(cells, repeat=n)


def plan(tier, seed):
    specs = []
    for c in CLASSES:
        for trig in TRIGGERS:
            specs.append({"cls": c, "trigger": trig, "tier": tier, "seed": seed})
    return specs


def cases_for(spec):
    r = gen.rng_for(spec["seed"], "C07", spec["cls"], spec["trigger"])
    out = []
    maxn_exh = 2 if spec["tier"] == "quick" else 3
    for n in range(1, maxn_exh + 1):
        for asg in assignments(n):
            order = list(range(n))
            r.shuffle(order)
            out.append({"files": [list(a) for a in asg], "order": order,
                        "missing": [r.random() < 0.25 for _ in range(n)],
                        "twins": [r.random() < 0.35 for _ in range(n)],
                        "drops": [r.random() < 0.2 for _ in range(n)]})
    cells = [(ro, w) for ro in ROLES for w in WHEN if not (ro != "modified" and w == "after_mod")]
    for n, count in ((3, 150), (4, 150)) if spec["tier"] == "quick" else ((4, 2500), (5, 800)):
        for _ in range(count):
            asg = [list(r.choice(cells)) for _ in range(n)]
            order = list(range(n))
            r.shuffle(order)
            out.append({"files": asg, "order": order, "missing": [r.random() < 0.25 for _ in range(n)],
                        "twins": [r.random() < 0.35 for _ in range(n)],
                        "drops": [r.random() < 0.2 for _ in range(n)]})
    return out


def _content(kind, tag):
    return {"init": tag, "l": [1, 2]} if kind == "dict" else ["init", tag, [1, 2]]


def _outside(kind, tag):
    return {"outside": tag, "pad": "x" * 17} if kind == "dict" else ["outside", tag, "x" * 17]


def _modify(obj, kind, tag):
    if kind == "dict":
        obj["mod_" + tag] = [tag]
    else:
        obj.append("mod_" + tag)


def _modified(content, kind, tag):
    c = copy.deepcopy(content) if content != MISSING else ({} if kind == "dict" else [])
    if kind == "dict":
        c["mod_" + tag] = [tag]
    else:
        c.append("mod_" + tag)
    return c


def run_case(info, trigger, case):
    """Returns (violation|None, counters)."""
    from synced_collections.errors import BufferedError, MetadataError

    cls = info.cls()
    kind = info.kind
    scratch = make_scratch()
    cnt = {"lib_calls": 0, "outside_writes": 0, "conflicts_expected": 0, "errors_seen": 0}
    files = case["files"]
    n = len(files)
    sig = {"cls": info.name, "strategy": info.strategy, "trigger": trigger}
    events_by_phase = []

    def V(k, detail, **more):
        return {"sig": {**sig, "kind": k, **more}, "detail": f"{info.name}/{trigger} files={files} order={case['order']}: {detail}",
                "case": {"cls": info.name, "trigger": trigger, **case}}, cnt

    def lib(fn):
        """Run a library call with the write monitor armed; returns (result, exception, events)."""
        cnt["lib_calls"] += 1
        fsmon.arm(scratch)
        try:
            try:
                return fn(), None
            except Exception as e:  # noqa: BLE001
                return None, e
        finally:
            events_by_phase.append(fsmon.disarm())

    try:
        catalog.reset_class_state(cls)
        if trigger == "backend_exit_cap_small_prev":
            # the capacity in effect before the context is small; the context itself gets a large one
            cls.set_buffer_capacity(1 if info.strategy == "memory" else 24)
        cap_before = cls.get_buffer_capacity()
        res = [catalog.Resource(info, scratch, f"f{i}") for i in range(n)]
        extra = catalog.Resource(info, scratch, "unrelated")
        missing = case.get("missing") or [False] * n
        for i, r in enumerate(res):
            if not missing[i]:
                r.outside_write(_content(kind, f"f{i}"), bump=False)
        extra.outside_write(_content(kind, "unrelated"), bump=False)
        objs = [r.new_handle() for r in res]
        # a second object on the same file that only reads inside the backend-wide context (objects on one file in
        # *different* buffered states are unsupported, so no twins with per-object contexts)
        twins = case.get("twins") or [False] * n
        twin_objs = {i: res[i].new_handle() for i in range(n) if twins[i] and trigger != "obj_exit"}
        xobj = extra.new_handle()
        # what the file must hold at the end (MISSING = must not exist)
        disk = [MISSING if missing[i] else _content(kind, f"f{i}") for i in range(n)]
        for o in objs:
            if case.get("preload", True):
                lib(lambda o=o: o())
        # ---- outside changes that precede the first buffered access
        for i, (role, when) in enumerate(files):
            if when == "before":
                res[i].outside_write(_outside(kind, f"f{i}"), bump=True)
                cnt["outside_writes"] += 1
                disk[i] = _outside(kind, f"f{i}")
        # ---- enter
        ctxs = []  # (kind, index, cm)
        if trigger == "obj_exit":
            for i in case["order"]:
                cm = objs[i].buffered
                _, e = lib(cm.__enter__)
                if e:
                    return V("enter_raised", f"entering obj.buffered raised {type(e).__name__}: {e}")
                ctxs.append(("obj", i, cm))
        else:
            cm = cls.buffer_backend(10**9) if trigger.startswith("backend_exit_cap") else cls.buffer_backend()
            _, e = lib(cm.__enter__)
            if e:
                return V("enter_raised", f"entering buffer_backend raised {type(e).__name__}: {e}")
            ctxs.append(("backend", None, cm))
        # ---- first buffered accesses, outside changes, modifications
        for i in case["order"]:
            role, when = files[i]
            if role == "untouched":
                if when in ("after_read",):
                    res[i].outside_write(_outside(kind, f"f{i}"), bump=True)
                    cnt["outside_writes"] += 1
                    disk[i] = _outside(kind, f"f{i}")
                continue
            _, e = lib(lambda i=i: objs[i]())  # the file enters the buffer
            if e:
                return V("read_raised", f"buffered read of file {i} raised {type(e).__name__}: {e}")
            if when == "after_read":
                res[i].outside_write(_outside(kind, f"f{i}"), bump=True)
                cnt["outside_writes"] += 1
                disk[i] = _outside(kind, f"f{i}")
            if role == "modified":
                _, e = lib(lambda i=i: _modify(objs[i], kind, f"f{i}"))
                if e:
                    return V("modify_raised", f"buffered modification of file {i} raised {type(e).__name__}: {e}")
                if when == "after_mod":
                    res[i].outside_write(_outside(kind, f"f{i}"), bump=True)
                    cnt["outside_writes"] += 1
                    disk[i] = _outside(kind, f"f{i}")
                elif when != "after_read":
                    disk[i] = _modified(disk[i], kind, f"f{i}")
            else:
                # read-only: read once more after the outside change (still must not write / raise)
                _, e = lib(lambda i=i: objs[i]())
                if e:
                    return V("read_raised", f"buffered re-read of file {i} raised {type(e).__name__}: {e}")
            if i in twin_objs:
                _, e = lib(lambda i=i: twin_objs[i]())
                if e:
                    return V("read_raised", f"buffered read of file {i} through a second object raised "
                             f"{type(e).__name__}: {e}")
                cnt["twin_reads"] = cnt.get("twin_reads", 0) + 1
        # the program releases some of its objects before the backend-wide context exits (temporary handles): what
        # they buffered must be flushed - and checked for conflicts - all the same
        dropped = [i for i in range(n) if (case.get("drops") or [False] * n)[i] and trigger != "obj_exit"
                   and files[i][0] != "untouched"]
        if dropped:
            import gc

            for i in dropped:
                objs[i] = None
                twin_objs.pop(i, None)
            gc.collect()
            cnt["dropped_objects"] = cnt.get("dropped_objects", 0) + len(dropped)
        conflicts = {res[i].path for i, (role, when) in enumerate(files)
                     if role == "modified" and when in ("after_read", "after_mod")}
        cnt["conflicts_expected"] = len(conflicts)
        delivered = set()
        # ---- forced triggers inside the backend context
        if trigger in ("set_capacity_0", "forced_by_other_op"):
            if trigger == "set_capacity_0":
                _, e = lib(lambda: cls.set_buffer_capacity(0))
            else:
                lib(lambda: cls.set_buffer_capacity(cls.get_current_buffer_size()))
                _, e = lib(lambda: _modify(xobj, kind, "unrelated"))
            if conflicts:
                if not isinstance(e, BufferedError):
                    return V("conflict_not_raised", f"forced flush ({trigger}) did not raise BufferedError (got "
                             f"{type(e).__name__ if e else None}); conflicting files {sorted(map(os.path.basename, conflicts))}")
                got = set(e.files)
                if got != conflicts:
                    return V("wrong_file_set", f"BufferedError.files = {sorted(map(os.path.basename, got))}, expected "
                             f"{sorted(map(os.path.basename, conflicts))}")
                if not all(isinstance(x, MetadataError) for x in e.files.values()):
                    return V("wrong_error_type", f"BufferedError.files values: {[type(x).__name__ for x in e.files.values()]}")
                delivered |= got
                cnt["errors_seen"] += 1
            elif e is not None:
                return V("spurious_error", f"forced flush ({trigger}) raised {type(e).__name__}: {e} without any conflict")
            # the program itself changed the capacity: it puts it back
            lib(lambda: cls.set_buffer_capacity(cap_before))
        # ---- leave the contexts
        for ck, i, cm in reversed(ctxs):
            _, e = lib(lambda cm=cm: cm.__exit__(None, None, None))
            if ck == "obj":
                want = res[i].path in conflicts
                if want and not isinstance(e, MetadataError):
                    return V("conflict_not_raised", f"leaving obj.buffered of file {i} did not raise MetadataError "
                             f"(got {type(e).__name__ if e else None})")
                if not want and e is not None:
                    return V("spurious_error", f"leaving obj.buffered of file {i} ({files[i]}) raised {type(e).__name__}: {e}")
                if want:
                    delivered.add(res[i].path)
                    cnt["errors_seen"] += 1
                    if getattr(e, "filename", None) != res[i].path:
                        return V("wrong_file_set", f"MetadataError.filename = {getattr(e, 'filename', None)!r}")
            else:
                pending = conflicts - delivered
                if pending:
                    if not isinstance(e, BufferedError):
                        return V("conflict_not_raised", f"leaving buffer_backend did not raise BufferedError (got "
                                 f"{type(e).__name__ if e else None}: {e}); conflicting {sorted(map(os.path.basename, pending))}")
                    if set(e.files) != pending:
                        return V("wrong_file_set", f"BufferedError.files = {sorted(map(os.path.basename, e.files))}, "
                                 f"expected {sorted(map(os.path.basename, pending))}")
                    if not all(isinstance(x, MetadataError) for x in e.files.values()):
                        return V("wrong_error_type", f"values: {[type(x).__name__ for x in e.files.values()]}")
                    delivered |= pending
                    cnt["errors_seen"] += 1
                elif e is not None:
                    return V("spurious_error", f"leaving buffer_backend raised {type(e).__name__}: {e} with no pending conflict")
        # ---- files
        for i, r in enumerate(res):
            got = r.probe()
            if not model.strict_eq(got, disk[i]):
                k = "outside_change_overwritten" if r.path in conflicts or files[i][1] != "never" else "wrong_content"
                if files[i][0] == "modified" and r.path not in conflicts and not model.strict_eq(got, disk[i]):
                    k = "clean_file_not_written" if files[i][1] == "never" or files[i][1] == "before" else k
                return V(k, f"file {i} ({files[i]}) holds {got!r}, expected {disk[i]!r}")
        # read-only / untouched files are never written by the library
        all_events = [ev for ph in events_by_phase for ev in ph]
        for i, (role, when) in enumerate(files):
            if role != "modified":
                w = fsmon.writes_to(all_events, res[i].path)
                if w:
                    return V("readonly_written", f"file {i} ({files[i]}) was written by the library: {w[:2]}")
        # ---- afterwards
        size = cls.get_current_buffer_size()
        if size != 0:
            return V("buffer_not_empty", f"get_current_buffer_size() == {size} after all contexts exited",
                     after_error=bool(conflicts))
        if cls.get_buffer_capacity() != cap_before:
            return V("capacity_not_restored", f"capacity is {cls.get_buffer_capacity()}, was {cap_before}",
                     after_error=bool(conflicts))
        if cls.backend_is_buffered():
            return V("still_buffered", "backend_is_buffered() is still true")
        empty = {} if kind == "dict" else []
        for i in dropped:
            objs[i] = res[i].new_handle()
        for i, o in twin_objs.items():
            v, e = lib(lambda o=o: o())
            if disk[i] == MISSING and e is None:
                v = MISSING if model.strict_eq(v, empty) else v
            if e is not None or not model.strict_eq(v, disk[i]):
                return V("collection_not_in_sync", f"second object on file {i} reads {v!r} / "
                         f"{type(e).__name__ if e else None}, disk has {disk[i]!r}")
        for i, o in enumerate(objs):
            v, e = lib(lambda o=o: o())
            if disk[i] == MISSING and e is None:
                # a missing file reads as the empty container
                v = MISSING if model.strict_eq(v, empty) else v
            if e is not None or not model.strict_eq(v, disk[i]):
                return V("collection_not_in_sync", f"object {i} reads {v!r} / {type(e).__name__ if e else None}, disk has {disk[i]!r}")
            _, e = lib(lambda o=o, i=i: _modify(o, kind, f"post{i}"))
            if e is not None or not model.strict_eq(res[i].probe(), _modified(disk[i], kind, f"post{i}")):
                return V("collection_unusable", f"write after the contexts failed for object {i}: "
                         f"{type(e).__name__ if e else res[i].probe()}")
        return None, cnt
    finally:
        catalog.reset_class_state(cls)
        shutil.rmtree(scratch, ignore_errors=True)


def run_shard(spec):
    boot.boot()
    info = catalog.info(spec["cls"])
    out = {"evaluations": 0, "keys": [], "violations": [], "samples": [], "counters": {}, "strata": {}}
    keys = set()
    for case in cases_for(spec):
        v, cnt = run_case(info, spec["trigger"], case)
        out["evaluations"] += 1
        for k, x in cnt.items():
            out["counters"][k] = out["counters"].get(k, 0) + x
        st = out["strata"].setdefault("trigger:" + spec["trigger"], {"cases": 0, "with_conflict": 0, "violations": 0})
        st["cases"] += 1
        st["with_conflict"] += 1 if cnt["conflicts_expected"] else 0
        if cnt["outside_writes"] and any(f[0] == "modified" for f in case["files"]):
            keys.add(gen.case_key([spec["cls"], spec["trigger"], case]))
        if v is not None:
            st["violations"] += 1
            if len(out["violations"]) < 20:
                out["violations"].append(v)
        if not out["samples"]:
            out["samples"].append({"cls": spec["cls"], "trigger": spec["trigger"], **case})
    out["keys"] = sorted(keys)
    return out


def floors(tier, merged):
    c = merged["counters"]
    return [("cases_with_expected_conflict_errors_seen", c.get("errors_seen", 0), 200),
            ("outside_writes", c.get("outside_writes", 0), 500)]


def replay(case):
    boot.boot()
    info = catalog.info(case["cls"])
    v, _ = run_case(info, case["trigger"], {"files": case["files"], "order": case["order"],
                                           "missing": case.get("missing")})
    return [v] if v else []
