"""C14 - readers next to writers: no lost update, no impossible state, no error."""
import copy
import time

from vf import boot, catalog, conc, concgen, gen

PROPERTY = "C14"
LEVEL = "exploration"
RULE = ("programs of >= 1 reader thread (getitem, get, len, iter, (), ==, items/values/keys, contains, "
        "navigation to a nested child then a read) next to >= 1 writer thread (setitem, delitem, update, "
        "setdefault, append, insert, pop, extend) with unique values, on topologies T2 (reader has its own "
        "object on the writer's file), T1 (same object) and T1c (reader uses a child of the writer's object), "
        "unbuffered and inside buffer_backend() of both strategies; deterministic line-level scheduler with "
        "full delay sweeps of every thread; each history is checked for linearizability including the reads "
        "(a read must be placeable between its call and its return), final content, exceptions, deadlock and "
        "leaked locks. Strata: own_tree (reader and writer do not share an in-memory tree: zero tolerance) "
        "and shared_tree (known finding D13). evaluations = controlled executions; distinct_nontrivial = "
        "distinct (program, switch list) pairs with a mid-operation switch.")
ASSUMPTIONS = [
    "preemption points are executed line starts of library code; stdlib calls are atomic blocks",
    "locks are cooperative shims installed while the library is imported",
]
COMBOS = [("JSONDict", None), ("JSONList", None), ("BufferedJSONDict", None), ("BufferedJSONDict", "ctx"),
          ("BufferedJSONList", "ctx"), ("MemoryBufferedJSONDict", "ctx"), ("MemoryBufferedJSONList", "ctx"),
          ("MemoryBufferedJSONDict", None), ("JSONAttrDict", None)]
PROGRAMS = {"quick": 12, "thorough": 200}
SHARD_TIMEOUT = {"quick": 600, "thorough": 5400}
BUDGET = {"quick": 30, "thorough": 400}

D_WRITES = ["setitem", "delitem", "update", "setdefault", "pop"]
L_WRITES = ["append", "insert", "pop", "extend", "setitem", "delitem"]
D_READS = ["getitem", "get", "len", "iter", "call", "eq", "items", "values", "keys", "contains"]
L_READS = ["getitem", "len", "iter", "call", "eq", "contains", "count", "index"]


def plan(tier, seed):
    specs = []
    n = PROGRAMS[tier]
    for ci, (cname, mode) in enumerate(COMBOS):
        # quick: 16 shards in all (one wave on 16 cores)
        pieces = (2 if ci < 7 else 1) if tier == "quick" else 6
        for pi in range(pieces):
            specs.append({"cls": cname, "mode": mode, "seed": seed, "tier": tier,
                          "start": pi * n // pieces, "count": (pi + 1) * n // pieces - pi * n // pieces})
    return specs


def _read_step(r, kind, h, target, path=()):
    if isinstance(target, dict):
        op = r.choice(D_READS)
        keys = list(target)
        if op in ("getitem", "get", "contains"):
            k = r.choice(keys) if keys and r.random() < 0.7 else "hot"
            args = [k] if op != "get" else [k, "dflt"]
        elif op == "eq":
            args = [copy.deepcopy(target)]
        else:
            args = []
    else:
        op = r.choice(L_READS)
        if op == "getitem":
            args = [r.choice([0, -1, 1])]
        elif op in ("contains", "count", "index"):
            args = [r.choice([10, "x", "t1o0", "t0o0"])]
        elif op == "eq":
            args = [copy.deepcopy(target)]
        else:
            args = []
    return {"op": op, "h": h, "path": list(path), "args": args}


def make_prog(spec, i):
    info = catalog.info(spec["cls"])
    r = gen.rng_for(spec["seed"], "C14", spec["cls"], spec["mode"], i)
    kind = info.kind
    init = copy.deepcopy(concgen.DICT_INIT if kind == "dict" else concgen.LIST_INIT)
    topo = r.choice(["T2", "T2", "T2", "T1", "T1c"])
    child_paths = [["c"], ["l"], ["d"]] if kind == "dict" else [[2], [3]]
    roots, pre = [[0, 0]], []
    nwriters = r.choice([1, 1, 2])
    if topo == "T2":
        roots = [[0, 0], [1, 0]]
        rh, rpath, rtarget_path = 1, [], []
    elif topo == "T1":
        rh, rpath, rtarget_path = 0, [], []
    else:
        p = r.choice(child_paths)
        if r.random() < 0.5:
            pre = [{"retain": 10, "h": 0, "path": p}]
            rh, rpath, rtarget_path = 10, [], p
        else:
            rh, rpath, rtarget_path = 0, p, p  # navigation inside the reader thread
    rt = init
    for k in rtarget_path:
        rt = rt[k]
    threads = []
    # writers (threads 0..nwriters-1) use root object 0
    for ti in range(nwriters):
        steps = []
        for si in range(r.choice([1, 1, 2])):
            if kind == "dict":
                op = r.choice(D_WRITES)
                args = concgen.dict_op(r, op, ti, si, init, avoid=set(p[0] for p in child_paths)
                                       if topo == "T1c" else ())
            else:
                op = r.choice(L_WRITES if topo != "T1c" else ["append", "extend"])
                args = concgen.list_op(r, op, ti, si, init)
            steps.append({"op": op, "h": 0, "path": [], "args": args})
        threads.append(steps)
    atomic_reads = (spec["mode"] == "ctx" and info.strategy == "memory" and topo == "T2"
                    and r.random() < 0.6)
    if atomic_reads:
        # shared-memory context, reads that neither iterate nor convert the shared container: these do not
        # go through the lock-free merge of known finding D13 and must be linearizable
        rsteps = []
        for _ in range(r.choice([1, 2])):
            if kind == "dict":
                op = r.choice(["len", "getitem", "get", "contains"])
                k_ = r.choice(list(init) + ["hot", "n00", "n10"])
                args = [] if op == "len" else ([k_, "dflt"] if op == "get" else [k_])
            else:
                op = r.choice(["len", "getitem"])
                args = [] if op == "len" else [r.choice([0, 1, -1])]
            rsteps.append({"op": op, "h": rh, "path": [], "args": args})
    else:
        rsteps = [_read_step(r, kind, rh, rt, rpath) for _ in range(r.choice([1, 2]))]
    threads.append(rsteps)
    if topo == "T2" and r.random() < 0.2:
        # the file does not exist yet: the writer creates it while the reader (own object) reads
        from vf.catalog import MISSING

        init = MISSING
        threads = []
        for ti in range(nwriters):
            steps = []
            for si in range(2):
                if kind == "dict":
                    steps.append({"op": "setitem", "h": 0, "path": [], "args": [f"n{ti}{si}", concgen.uval(ti, si, r)]})
                else:
                    steps.append({"op": "append", "h": 0, "path": [], "args": [concgen.uval(ti, si, r)]})
            threads.append(steps)
        threads.append([{"op": r.choice(["len", "call", "iter"]), "h": 1, "path": [], "args": []} for _ in range(2)])
        topo = "T2_missing"
        atomic_reads = False  # the reads were just replaced by ones that iterate / convert the container
    prog = {"cls": info.name, "init": init, "roots": roots, "pre": pre, "threads": threads}
    if spec["mode"] == "ctx":
        prog["buffered"] = {"cap": None}
    shared = topo not in ("T2", "T2_missing") or (spec["mode"] == "ctx" and info.strategy == "memory")
    if atomic_reads:
        shared = False
    return prog, {"topology": topo + ("_atomic_reads" if atomic_reads else ""),
                  "shared_tree": shared, "stratum": "shared_tree" if shared else "own_tree"}, r


def run_shard(spec):
    boot.boot(lock_shim=True)
    t0 = conc.clock()
    out = {"evaluations": 0, "keys": [], "violations": [], "samples": [], "counters": {}, "strata": {}}
    keys = set()
    c = out["counters"]
    sites = set()
    for i in range(spec["start"], spec["start"] + spec["count"]):
        if conc.clock() - t0 > BUDGET[spec["tier"]]:
            c["budget_cut_programs"] = c.get("budget_cut_programs", 0) + 1
            continue
        prog, meta, r = make_prog(spec, i)
        runner = conc.ProgramRunner(prog)
        try:
            pol = ("sweep", "boundary") if spec["tier"] == "quick" else ("sweep", "boundary", "two_delay", "random")
            res = conc.explore(prog, runner, r, spec["tier"],
                               {"cls": prog["cls"], "stratum": meta["stratum"], "topology": meta["topology"],
                                "shared_tree": meta["shared_tree"], "mode": spec["mode"] or "unbuffered"},
                               policies=pol, deadline=t0 + BUDGET[spec["tier"]] * 1.5)
        finally:
            runner.close()
        out["evaluations"] += res["runs"]
        pk = gen.case_key(prog)
        for s in res["schedules"]:
            keys.add((pk ^ s) & (2**63 - 1))
        for name in (meta["stratum"], "topology:" + meta["topology"], "mode:" + (spec["mode"] or "unbuffered")):
            st = out["strata"].setdefault(name, {"programs": 0, "runs": 0, "violating_programs": 0})
            st["programs"] += 1
            st["runs"] += res["runs"]
            if res["violations"]:
                st["violating_programs"] += 1
        c["orders_tried"] = c.get("orders_tried", 0) + res["orders_tried"]
        c["interleaved_runs"] = c.get("interleaved_runs", 0) + res["interleaved_runs"]
        for k, v in res["statuses"].items():
            c["status_" + k] = c.get("status_" + k, 0) + v
        sites |= res["sites"]
        if res["inconclusive"]:
            c["inconclusive_runs"] = c.get("inconclusive_runs", 0) + len(res["inconclusive"])
        if res.get("cut_by_deadline"):
            c["programs_cut_by_deadline"] = c.get("programs_cut_by_deadline", 0) + 1
        if res["violations"]:
            out["violations"].extend(res["violations"][:1])
        if len(out["samples"]) < 1:
            out["samples"].append({"program": prog, "runs": res["runs"], "distinct_schedules": len(res["schedules"])})
    out["keys"] = sorted(keys)
    c["preemption_sites"] = sorted(f"{f}:{l}" for f, l in sites)
    return out


def floors(tier, merged):
    c = merged["counters"]
    own = merged["strata"].get("own_tree", {})
    return [("controlled_runs_with_mid_operation_switch", c.get("interleaved_runs", 0), 500),
            ("own_tree_runs", own.get("runs", 0), 300),
            ("inconclusive_runs_max0", -c.get("inconclusive_runs", 0), 0)]


def extra_coverage(tier, merged):
    return {"distinct_preemption_sites": len(merged["counters"].get("preemption_sites", []))}


def replay(case):
    boot.boot(lock_shim=True)
    return conc.replay_one(case)
