"""C06 - objects on one file share one buffered state; the flush keeps all their writes."""
from vf import catalog, e1, gen
from vf import model as _m
from vf.catalog import MISSING
from vf.session import ModelState

from . import common

PROPERTY = "C06"
LEVEL = "exploration"
RULE = ("k in {2,3,4} objects on one file under a common buffered state: either one backend-wide context, "
        "or per-object contexts entered in a random order and left, together, in a random permutation. Each "
        "object gets a role (writes+reads / only reads / never touched); the order of first touch, of the "
        "operations and of the exits is random; some objects read before the contexts are entered. Reads "
        "inside the contexts (only those the program contains) are compared with one shared plain model; "
        "the file is probed without the library after the common exit and must hold every write; afterwards "
        "every object is read once. Strata: item_writes (no clear/reset) and clear_reset (load-free "
        "mutators as first touch) and sessions (2-3 objects, several buffered sessions separated by unbuffered "
        "phases, tiny key/value alphabet so that contents and their serialised forms recur) and small_cap (backend-"
        "wide context with a capacity the writes exceed: forced flushes by whichever object is picked). distinct = case hash; non-trivial = >= 2 objects touched the buffer and "
        ">= 1 wrote.")
ASSUMPTIONS = ["objects in *different* buffered states on one file are not generated (documented as unsupported)"]
STRATA = ["item_writes", "clear_reset", "sessions", "small_cap"]
PER = {"quick": {"item_writes": 1000, "clear_reset": 600, "sessions": 600, "small_cap": 600},
       "thorough": {"item_writes": 6000, "clear_reset": 3000, "sessions": 6000, "small_cap": 4000}}
ITEM_MUT = ["setitem", "delitem", "pop", "popitem", "update", "setdefault", "insert", "append", "extend",
            "iadd", "remove", "reverse"]


def plan(tier, seed):
    combos = [(c, {"wc": False, "threading": True}) for c in catalog.BUFFERED_CLASSES]
    return common.plan_grid(tier, seed, combos, PER, STRATA, pieces=4)


def _sessions_case(info, spec, r):
    """Several buffered sessions on one file with unbuffered phases in between, over a tiny alphabet of keys
    and values, so that the content (and its serialised form) keeps returning to states it was in before -
    anything an object remembers from an earlier session or phase is stale in the next one."""
    k = r.choice([2, 2, 3])
    init = r.choice([MISSING, {}, {"k": 1}, {"k": 2, "z": 1}]) if info.kind == "dict" else r.choice([MISSING, [], [1], [2, 5]])
    ms = ModelState(info.kind, [init])
    roots = [[h, 0] for h in range(k)]
    for h, _ in roots:
        ms.add_root(h, 0)
    steps = []

    def op(h):
        cur = ms.logical[0]
        if r.random() < 0.4:
            if info.kind == "dict" and cur and r.random() < 0.5:
                return {"op": "getitem", "h": h, "path": [], "args": [r.choice(sorted(cur))]}
            return {"op": "call", "h": h, "path": [], "args": []}
        if info.kind == "dict":
            x = r.random()
            if x < 0.7 or not cur:
                return {"op": "setitem", "h": h, "path": [], "args": [r.choice(["k", "z"]), r.choice([1, 2, 1, {"n": 1}])]}
            if x < 0.85:
                return {"op": "delitem", "h": h, "path": [], "args": [r.choice(sorted(cur))]}
            return {"op": "reset", "h": h, "path": [], "args": [r.choice([{"k": 1}, {"k": 2}, {"k": 1, "z": 0}])]}
        x = r.random()
        if x < 0.35:
            return {"op": "reset", "h": h, "path": [], "args": [r.choice([[1], [2], [1, 5]])]}
        if x < 0.6:
            return {"op": "append", "h": h, "path": [], "args": [r.choice([5, 1])]}
        if x < 0.8 and cur:
            return {"op": "pop", "h": h, "path": [], "args": []}
        if cur:
            return {"op": "setitem", "h": h, "path": [], "args": [0, r.choice([1, 2])]}
        return {"op": "append", "h": h, "path": [], "args": [1]}

    def emit(n):
        for _ in range(n):
            st = op(r.randrange(k))
            steps.append(st)
            ms.apply_op(st)

    buffered_next = r.random() < 0.7
    sessions = 0
    for _ in range(r.choice([3, 4, 5, 6])):
        if buffered_next:
            sessions += 1
            mode = r.choice(["backend", "obj"])
            if mode == "backend":
                st = {"enter": "backend", "cap": None}
                steps.append(st)
                ms.enter(st)
            else:
                order = list(range(k))
                r.shuffle(order)
                for h in order:
                    st = {"enter": "obj", "h": h}
                    steps.append(st)
                    ms.enter(st)
            emit(r.choice([1, 2, 3, 4, 6]))
            if ms.truth[0] == MISSING and ms.logical[0] == ({} if info.kind == "dict" else []):
                st = ({"op": "setitem", "h": 0, "path": [], "args": ["k", 1]} if info.kind == "dict"
                      else {"op": "append", "h": 0, "path": [], "args": [1]})
                steps.append(st)
                ms.apply_op(st)
            if mode == "backend":
                steps.append({"exit": 1})
                ms.exit()
            else:
                order = list(range(k))
                r.shuffle(order)
                for h in order:
                    steps.append({"exit": "obj", "h": h})
                    ms.exit(h)
        else:
            if ms.truth[0] == MISSING:
                st = ({"op": "setitem", "h": 0, "path": [], "args": ["k", 1]} if info.kind == "dict"
                      else {"op": "append", "h": 0, "path": [], "args": [1]})
                steps.append(st)
                ms.apply_op(st)
            emit(r.choice([1, 1, 2, 3]))
        buffered_next = not buffered_next if r.random() < 0.8 else buffered_next
    for h in range(k):
        steps.append({"op": "call", "h": h, "path": [], "args": []})
    return {"cls": info.name, "cfg": spec["cfg"], "res": [init], "roots": roots, "steps": steps,
            "stratum": spec["stratum"], "sessions": sessions,
            "oracle": {"results": True, "resource_strict": True, "resource_each_step": True, "final_call": True}}


def make_case(spec, i):
    info = catalog.info(spec["cls"])
    r = gen.rng_for(spec["seed"], "C06", spec["cls"], spec["stratum"], i)
    if spec["stratum"] == "sessions":
        return _sessions_case(info, spec, r)
    g = gen.G(r, attr=info.attr, surrogates=True)
    k = r.choice([2, 2, 3, 3, 4])
    init = MISSING if r.random() < 0.1 else g.shape(info.kind, 2)
    ms = ModelState(info.kind, [init])
    roots = [[h, 0] for h in range(k)]
    for h, _ in roots:
        ms.add_root(h, 0)
    roles = [r.choice(["w", "w", "r", "n"]) for _ in range(k)]
    if "w" not in roles:
        roles[r.randrange(k)] = "w"
    if sum(x != "n" for x in roles) < 2:
        j = r.choice([x for x in range(k) if roles[x] == "n"])
        roles[j] = r.choice(["w", "r"])
    steps = []
    # some objects read (or write) before the buffered state begins
    for h in range(k):
        if r.random() < 0.3:
            steps.extend(gen.gen_program(g, ms, 1, p_read=0.7, depth=2, handles=[h]))
    mode = r.choice(["backend", "obj"])
    small = spec["stratum"] == "small_cap"
    if small:
        # a capacity that the writes exceed: forced flushes happen in the middle of the common buffered state and
        # may be carried out by any of the objects, also by one that has only read
        mode = "backend"
    if mode == "backend":
        cap = None
        if small:
            cap = r.choice([0, 1, 5, 20, 60, 150]) if info.strategy == "serialized" else r.choice([0, 0, 1])
        st = {"enter": "backend", "cap": cap}
        steps.append(st)
        ms.enter(st)
    else:
        order = list(range(k))
        r.shuffle(order)
        for h in order:
            st = {"enter": "obj", "h": h}
            steps.append(st)
            ms.enter(st)
    actors = [h for h in range(k) if roles[h] != "n"]
    flt = None if spec["stratum"] in ("clear_reset", "small_cap") else ITEM_MUT
    n = r.choice([3, 5, 8, 12])
    for _ in range(n):
        h = r.choice(actors)
        p_read = 1.0 if roles[h] == "r" else 0.35
        mf = flt
        if spec["stratum"] == "clear_reset" and roles[h] == "w" and r.random() < 0.4:
            mf = ["clear", "reset"]
        sub = gen.gen_program(g, ms, 1, p_read=p_read, depth=2, handles=[h], mutator_filter=mf)
        steps.extend(sub)
    if ms.truth[0] == MISSING and ms.logical[0] == ({} if info.kind == "dict" else []):
        # A missing resource is read as "no data, keep what is in memory" (documented design of
        # _load_from_resource), so "file still missing + objects with non-empty stale memory" has no
        # defined read result. Make sure the common exit has something to write.
        w = r.choice([h for h in range(k) if roles[h] == "w"])
        st = ({"op": "setitem", "h": w, "path": [], "args": ["k1", 2]} if info.kind == "dict"
              else {"op": "append", "h": w, "path": [], "args": [2]})
        steps.append(st)
        ms.apply_op(st)
    dropped = []
    if mode == "backend" and r.random() < 0.35:
        # the program drops every object that touched the buffer before the context exits (only idle or no
        # objects remain): the buffered writes must reach the file all the same
        w = r.choice([h for h in range(k) if roles[h] == "w"])
        st = ({"op": "setitem", "h": w, "path": [], "args": ["kdrop", [7]]} if info.kind == "dict"
              else {"op": "append", "h": w, "path": [], "args": [["kdrop"]]})
        steps.append(st)
        ms.apply_op(st)
        touched = sorted({s_["h"] for s_ in steps if "op" in s_})
        for h in touched:
            steps.append({"drop": h})
            for hh in ms.handles.values():
                if hh.root == h:
                    hh.attached = False
            dropped.append(h)
    if mode == "backend":
        steps.append({"exit": 1})
        ms.exit()
    else:
        order = list(range(k))
        r.shuffle(order)
        for h in order:
            steps.append({"exit": "obj", "h": h})
            ms.exit(h)
    for h in range(k):
        if h not in dropped:
            steps.append({"op": "call", "h": h, "path": [], "args": []})
    if dropped:
        steps.append({"new_root": k, "res": 0})
        ms.add_root(k, 0)
        steps.append({"op": "call", "h": k, "path": [], "args": []})
    case = {"cls": info.name, "cfg": spec["cfg"], "res": [init], "roots": roots, "steps": steps,
            "stratum": spec["stratum"], "roles": roles, "mode": mode,
            "oracle": {"results": True, "resource_strict": True, "resource_each_step": False,
                       "final_call": True}}
    if small:
        case["small_capacity"] = True
    return case


def _nontrivial(case, sess):
    inside, touched, wrote = False, set(), False
    for s in case["steps"]:
        if "enter" in s:
            inside = True
        elif "exit" in s:
            inside = False
        elif "op" in s and inside:
            touched.add(s["h"])
            wrote = wrote or _m.is_mutator(s["op"])
    return len(touched) >= 2 and wrote


def run_shard(spec):
    return e1.run_shard(spec, make_case, nontrivial=_nontrivial)


def floors(tier, merged):
    c = merged["counters"]
    return [("ops_judged", c.get("ops", 0), 2000), ("exit_probes", c.get("probes", 0), 500)]


def replay(case):
    return e1.run_case(case)[0]
