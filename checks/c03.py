"""C03 - operations refine built-in dict/list: same results, same exception classes, same
content; comparisons agree with list comparison; failing operations change nothing."""
from vf import catalog, e1, gen
from vf.catalog import MISSING
from vf.session import ModelState

from . import common

PROPERTY = "C03"
LEVEL = "exploration"
RULE = ("seeded random programs over the full MutableMapping / MutableSequence surface (mutators, "
        "mixin methods, every slice form, negative / out-of-range indices, missing keys, comparison "
        "operators with plain, synced, shorter, longer and reflected operands, generators and "
        "self-aliasing arguments), each operation applied at a random container position (depth 0-5) "
        "and judged against the same operation on a built-in dict/list: return value (plain), exception "
        "class, content and resource after every step. distinct = hash of the case JSON; non-trivial = "
        ">= 5 operations judged.")
ASSUMPTIONS = [
    "documented deviations encoded in the model: dict.pop(missing) returns the default None; popitem may "
    "return any present pair; dict iteration order is ignored; tuples/bytes are stored as lists; "
    "reset(x) replaces the content and raises ValueError for a wrong container kind",
    "Redis/MongoDB/Zarr are in-process fakes",
]
STRATA = ["clean", "errors", "collide"]
PER = {"quick": {"clean": 300, "errors": 150, "collide": 50},
       "thorough": {"clean": 1500, "errors": 600, "collide": 200}}
STEPS = {"quick": 30, "thorough": 45}


def plan(tier, seed):
    return common.plan_grid(tier, seed, common.class_cfgs(all_cfgs=False), PER, STRATA, pieces=4)


class ErrG(gen.G):
    """Generator biased towards failing operations."""

    def _exist_or_new_key(self, t, p_exist=0.5):
        return super()._exist_or_new_key(t, min(p_exist, 0.3))

    def idx(self, t, p_in=0.8):
        return super().idx(t, 0.35)


def make_case(spec, i):
    info = catalog.info(spec["cls"])
    r = gen.rng_for(spec["seed"], "C03", spec["cls"], spec["stratum"], i)
    G = ErrG if spec["stratum"] == "errors" else gen.G
    g = G(r, attr=info.attr, collide=spec["stratum"] == "collide")
    init = MISSING if r.random() < 0.08 else g.shape(info.kind, 3)
    ms = ModelState(info.kind, [init])
    ms.add_root(0, 0)
    steps = gen.gen_program(g, ms, STEPS[spec["tier"]], p_read=0.5, depth=2, p_iter_mut=0.08)
    return {"cls": info.name, "cfg": spec["cfg"], "res": [init], "roots": [[0, 0]], "steps": steps,
            "stratum": spec["stratum"], "oracle": {"results": True, "resource_strict": True}}


def run_shard(spec):
    return e1.run_shard(spec, make_case, nontrivial=lambda c, s: s.counters["ops"] >= 5)


def floors(tier, merged):
    c = merged["counters"]
    return [("ops_judged", c.get("ops", 0), 2000), ("failing_ops_observed", c.get("excs", 0), 100)]


def replay(case):
    return e1.run_case(case)[0]
