"""C02 - read-through: every read reflects the backend's current content, including content
written by another object or by an outside writer; attached child handles stay attached."""
import copy

from vf import e1, model

from . import c04, common

PROPERTY = "C02"
LEVEL = "exploration"
RULE = ("seeded histories interleaving every read API (and some writes) on 1-3 objects bound to one "
        "resource and on retained child handles with out-of-band rewrites of the resource. Rewrites are "
        "transition-driven: a position is chosen and its value replaced so that (old kind -> new kind) "
        "ranges over {missing,null,bool,int,float,str,dict,list}^2, plus grown/shrunk containers, equal "
        "content and same-size rewrites without a timestamp bump. Truth = last content written by anyone; "
        "every read is compared with the same read on the truth. Stratum io_fault (JSON): a mutator fails with an "
        "injected EIO during its load or its save and is not re-issued - the resource keeps its old content while "
        "the memory may already hold the new one - and reads through the same handle, other objects and retained "
        "children follow at once. distinct = case hash; non-trivial = "
        ">= 1 outside rewrite followed by >= 1 judged read.")
ASSUMPTIONS = [
    "a retained child handle is asserted on only while attached by C02's own wording (conservative: "
    "dropped when its position ever held another kind, or was re-targeted through its own parent object)",
    "Redis/MongoDB/Zarr are in-process fakes",
]
STRATA = ["clean", "collide", "io_fault"]
PER = {"quick": {"clean": 400, "collide": 60, "io_fault": 150},
       "thorough": {"clean": 2500, "collide": 300, "io_fault": 1000}}

KINDS = ["missing", "null", "bool", "int", "float", "str", "dict", "list"]


def _all_positions(content):
    """(path, parent_kind) of every value position below the root, plus insertion points."""
    out = []

    def walk(x, p):
        if isinstance(x, dict):
            for k, v in x.items():
                out.append(p + [k])
                walk(v, p + [k])
        elif isinstance(x, list):
            for i, v in enumerate(x):
                out.append(p + [i])
                walk(v, p + [i])

    walk(content, [])
    return out


def _new_of_kind(g, kind, old):
    r = g.r
    if kind == "null":
        return None
    if kind == "bool":
        return r.choice([True, False])
    if kind == "int":
        return r.choice([2, 3, -7, 41, 2**70] + ([0, 1] if g.collide else []))
    if kind == "float":
        return r.choice([0.5, -2.25, 3.14, 1e308] + ([0.0, 1.0, 2.0] if g.collide else []))
    if kind == "str":
        return r.choice(["", "s", "text", "日本"])
    if kind == "dict":
        if isinstance(old, dict) and r.random() < 0.7:
            return g._merge_value(old, 2)
        return g.container("dict", 2, tagged=False)
    if kind == "list":
        if isinstance(old, list) and r.random() < 0.7:
            return g._merge_value(old, 2)
        return g.container("list", 2, tagged=False)
    raise AssertionError(kind)


def rewrite(g, content, root_kind):
    """New resource content differing from ``content`` at one chosen position.

    Returns (new_content, "old_kind->new_kind")."""
    r = g.r
    new = copy.deepcopy(content)
    positions = _all_positions(new)
    x = r.random()
    if not positions or x < 0.1:
        # add a new key / element somewhere (missing -> kind)
        conts = [p for p, _ in g.container_paths(new, 4)]
        p = r.choice(conts)
        t = new
        for k in p:
            t = t[k]
        nk = r.choice(KINDS[1:])
        v = _new_of_kind(g, nk, None)
        if isinstance(t, dict):
            t[g.key()] = v
        else:
            t.insert(r.randrange(len(t) + 1), v)
        return new, f"missing->{nk}"
    if x < 0.17:
        return new, "equal->equal"
    if x < 0.27:
        # empty a non-empty container in place of itself (same kind, no content)
        conts = [p for p, _ in g.container_paths(new, 4) if p]
        full = []
        for p in conts:
            t = new
            for k in p:
                t = t[k]
            if len(t):
                full.append(p)
        if full:
            p = r.choice(full)
            parent = new
            for k in p[:-1]:
                parent = parent[k]
            kind = model.kind_of(parent[p[-1]])
            parent[p[-1]] = {} if kind == "dict" else []
            return new, f"{kind}->empty_{kind}"
    p = r.choice(positions)
    parent = new
    for k in p[:-1]:
        parent = parent[k]
    old = parent[p[-1]]
    ok = model.kind_of(old)
    nk = r.choice(KINDS)
    if nk == "missing":
        del parent[p[-1]]
    else:
        parent[p[-1]] = _new_of_kind(g, nk, old)
    return new, f"{ok}->{nk}"


def plan(tier, seed):
    from vf import catalog

    specs = common.plan_grid(tier, seed, common.class_cfgs(all_cfgs=False), PER, STRATA, pieces=4)
    return [s for s in specs if s["stratum"] != "io_fault" or catalog.info(s["cls"]).backend == "json"]


def make_case(spec, i):
    return c04.build(spec, i, "C02", p_read=0.7, outside=True, fault_mode="single")


def _nontrivial(case, sess):
    seen_outside = False
    for s in case["steps"]:
        if "outside" in s:
            seen_outside = True
        elif "op" in s and seen_outside and not model.is_mutator(s["op"]):
            return True
    return False


def run_shard(spec):
    out = e1.run_shard(spec, make_case, nontrivial=_nontrivial)
    return out


def extra_case_counters(case, counters):
    pass


def floors(tier, merged):
    c = merged["counters"]
    return [("reads_judged", c.get("reads", 0), 2000)]


def replay(case):
    return e1.run_case(case)[0]
