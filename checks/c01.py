"""C01 - write-through: after every mutating call on an unbuffered collection the resource,
read independently, holds exactly the model content (strict JSON leaf types)."""
from vf import catalog, e1, gen
from vf.catalog import MISSING
from vf.session import ModelState

from . import common

PROPERTY = "C01"
LEVEL = "exploration"
RULE = ("seeded random programs of every public mutator (plus ~15% reads) applied at a uniformly "
        "chosen container position (depth 0-5) of generated nested content, for each of the 18 classes "
        "x write_concern x threading; the resource is probed without the library after every step and "
        "compared type-strictly with a plain dict/list model. distinct = hash of the case JSON; "
        "non-trivial = at least 3 mutating steps executed.")
ASSUMPTIONS = [
    "Redis/MongoDB/Zarr are in-process fakes implementing the client calls the library makes; "
    "server-side limits (BSON 64-bit ints, size limits) are not emulated",
]
STRATA = ["clean", "collide"]
PER = {"quick": {"clean": 250, "collide": 60}, "thorough": {"clean": 1500, "collide": 300}}
STEPS = {"quick": 25, "thorough": 40}


def plan(tier, seed):
    return common.plan_grid(tier, seed, common.class_cfgs(), PER, STRATA, pieces=2)


def make_case(spec, i):
    info = catalog.info(spec["cls"])
    r = gen.rng_for(spec["seed"], "C01", spec["cls"], spec["cfg"], spec["stratum"], i)
    g = gen.G(r, attr=info.attr, collide=spec["stratum"] == "collide")
    depth = 3 if spec["tier"] == "quick" else r.choice([3, 4])
    init = MISSING if r.random() < 0.12 else g.shape(info.kind, depth)
    ms = ModelState(info.kind, [init])
    ms.add_root(0, 0)
    steps = gen.gen_program(g, ms, STEPS[spec["tier"]], p_read=0.15, depth=2)
    return {"cls": info.name, "cfg": spec["cfg"], "res": [init], "roots": [[0, 0]], "steps": steps,
            "stratum": spec["stratum"], "oracle": {"results": False, "resource_strict": True}}


def run_shard(spec):
    return e1.run_shard(spec, make_case, nontrivial=lambda c, s: s.counters["mut"] >= 3)


def floors(tier, merged):
    c = merged["counters"]
    return [("mutating_ops_executed", c.get("mut", 0), 1000), ("resource_probes", c.get("probes", 0), 1000)]


def replay(case):
    return e1.run_case(case)[0]
