"""C01 - write-through: after every mutating call on an unbuffered collection the resource,
read independently, holds exactly the model content (strict JSON leaf types)."""
from vf import catalog, e1, gen
from vf.catalog import MISSING
from vf.session import ModelState

from . import common

PROPERTY = "C01"
LEVEL = "exploration"
RULE = ("seeded random programs of every public mutator (plus ~15% reads) applied at a uniformly "
        "chosen container position (depth 0-5) of generated nested content, for each of the 18 classes "
        "x write_concern x threading; in the io_fault stratum a third of the mutating calls run with an injected "
        "OSError(EIO) at their j-th file-system event or EFBIG after a byte prefix: a call that returns must "
        "still have written, a call that raises must leave the file wholly old or wholly new; the resource is probed without the library after every step and "
        "compared type-strictly with a plain dict/list model. distinct = hash of the case JSON; "
        "non-trivial = at least 3 mutating steps executed.")
ASSUMPTIONS = [
    "Redis/MongoDB/Zarr are in-process fakes implementing the client calls the library makes; "
    "server-side limits (BSON 64-bit ints, size limits) are not emulated",
]
STRATA = ["clean", "collide", "io_fault", "outside_writer"]
PER = {"quick": {"clean": 250, "collide": 60, "io_fault": 120, "outside_writer": 120},
       "thorough": {"clean": 1500, "collide": 300, "io_fault": 800, "outside_writer": 800}}
STEPS = {"quick": 25, "thorough": 40}


def plan(tier, seed):
    specs = common.plan_grid(tier, seed, common.class_cfgs(), PER, STRATA, pieces=2)
    # fault injection works through the audit hook / RLIMIT_FSIZE: file-backed classes only
    return [s for s in specs if s["stratum"] != "io_fault" or catalog.info(s["cls"]).backend == "json"]


def make_case(spec, i):
    info = catalog.info(spec["cls"])
    r = gen.rng_for(spec["seed"], "C01", spec["cls"], spec["cfg"], spec["stratum"], i)
    g = gen.G(r, attr=info.attr, collide=spec["stratum"] == "collide", surrogates=info.backend == "json")
    depth = 3 if spec["tier"] == "quick" else r.choice([3, 4])
    init = MISSING if r.random() < 0.12 else g.shape(info.kind, depth)
    ms = ModelState(info.kind, [init])
    ms.add_root(0, 0)
    if spec["stratum"] == "outside_writer":
        # another writer changes the resource between the calls; every mutating call (the load-free root
        # clear()/reset() included) must still leave exactly its own new content behind
        from .c02 import rewrite

        steps = []
        while len(steps) < STEPS[spec["tier"]]:
            if r.random() < 0.25:
                new, trans = rewrite(g, ms.logical[0], info.kind)
                steps.append({"outside": new, "res": 0, "bump": r.random() < 0.5, "trans": trans})
                ms.outside(0, new)
            else:
                flt = ["clear", "reset"] if r.random() < 0.25 else None
                steps.extend(gen.gen_program(g, ms, 1, p_read=0.1, depth=2, mutator_filter=flt))
    else:
        steps = gen.gen_program(g, ms, STEPS[spec["tier"]], p_read=0.15, depth=2)
    if spec["stratum"] == "io_fault":
        # a third of the mutating steps run with an injected fault: OSError(EIO) at the j-th file-system
        # event of the operation (load open, temp-file open, replace, ...) or EFBIG after a byte prefix
        from vf import model as _m

        # Only idempotent mutators get a fault, and each is re-issued right after without one, so that
        # the rest of the program meets the state it was generated for whether or not the faulty call
        # took effect.
        idem = {"setitem", "update", "setdefault", "reset", "clear"}
        out = []
        for st in steps:
            ok = st["op"] in idem and not (st["op"] == "setitem" and isinstance(st["args"][0], dict))
            if ok and r.random() < 0.5:
                f = dict(st)
                f["fault"] = {"eio": r.choice([1, 2, 2, 3, 3, 4])} if r.random() < 0.8 else \
                    {"efbig": r.choice([0, 3, 20, 60])}
                out.append(f)
            out.append(st)
        steps = out
    return {"cls": info.name, "cfg": spec["cfg"], "res": [init], "roots": [[0, 0]], "steps": steps,
            "stratum": spec["stratum"], "oracle": {"results": False, "resource_strict": True}}


def run_shard(spec):
    return e1.run_shard(spec, make_case, nontrivial=lambda c, s: s.counters["mut"] >= 3)


def floors(tier, merged):
    c = merged["counters"]
    return [("mutating_ops_executed", c.get("mut", 0), 1000), ("resource_probes", c.get("probes", 0), 1000)]


def replay(case):
    return e1.run_case(case)[0]
