"""Helpers shared by the check modules: class/config grids, shard plans."""
from vf import catalog, e1

JSON_CFGS = [
    {"wc": False, "threading": True},
    {"wc": True, "threading": True},
    {"wc": False, "threading": False},
    {"wc": True, "threading": False},
]
OTHER_CFGS = [{"wc": False, "threading": True}]


def class_cfgs(classes=None, all_cfgs=True):
    out = []
    for c in classes if classes is not None else catalog.CLASSES:
        cfgs = JSON_CFGS if (c.backend == "json" and all_cfgs) else OTHER_CFGS
        for cfg in cfgs:
            out.append((c, cfg))
    return out


def plan_grid(tier, seed, combos, per_combo, strata, pieces=1):
    """One shard per (class, cfg, stratum[, piece]).

    per_combo: {"quick": {stratum: n}, "thorough": {stratum: n}}
    """
    specs = []
    for c, cfg in combos:
        for stratum in strata:
            n = per_combo[tier][stratum]
            if n <= 0:
                continue
            for pi, (start, count) in enumerate(e1.split(n, pieces if tier == "thorough" else 1)):
                specs.append({"cls": c.name, "cfg": cfg, "stratum": stratum, "seed": seed,
                              "start": start, "count": count, "tier": tier})
    return specs
